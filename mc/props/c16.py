"""C16 - a Files paragraph matches by glob semantics; find_files_paragraph = last match wins.

Four parts, all exhaustive within the bound (mc.models.glob is the oracle, a backtracking matcher):
  single  (Engine B)  every pattern of length 1..n over {a, b, /, *, ?, \\}  x  every name of length 0..n
                      over {a, b, /, *, ?, \\, \\n};
  pairs / triples     every ordered pair of patterns of length <= 2 and every triple of length-1 patterns
                      x every name;
  hist    (Engine A)  histories over `files := L | matches(n)`: the state is the history, rebuilt on a fresh
                      paragraph for every history (tree mode) and BFS over (current list, list the pattern
                      was last compiled for) to fixpoint (graph mode);
  doc                 documents of 1..3 Files paragraphs over a 6-list pool, with stand-alone License
                      paragraphs in every subset of the gaps, built from text and through the API, x every
                      name, for find_files_paragraph.
  dockinds            the documents of 1 paragraph (every gap subset) and of 2 paragraphs (no License paragraph / one
                      between the two) once more, the text handed to Copyright(...) in every other documented way: lines
                      without their newlines, a tuple, a generator, io.StringIO, a text-mode file object, the whole str,
                      the whole text as UTF-8 bytes, UTF-8 bytes lines / io.BytesIO with encoding=, bytes lines /
                      io.BytesIO in another 8-bit encoding with encoding= (the "parse" route itself is a list of lines with newlines); x every name (two
                      paragraphs: every name of length 0..2).
Every pattern list is installed both with FilesParagraph.create() and by parsing a document (strict).
  listroutes          a sub-space of the lists (singles of length <= 2, pairs) installed / asked the other public ways
                      (LIST_ROUTES: tuples, iterators, constructors over a Deb822 mapping, assignment after a first use, edits of
                      the kept Deb822 object, copies, other layouts of the Files field, strict=False, keyword arguments,
                      globs_to_re on its own) x every name; doc routes (DOC_ROUTES_NEW) likewise for find_files_paragraph; the
                      history explorer also runs with assignments going through the kept Deb822 object (route "data").
  ladder              beyond the small scope: COUNT ladders - for every n in 1..40 and 63 64 65 100 127 128 129 255 256 257 999 1000
                      1001 1025 2500 2501 5000 one pattern with n '?' in a row (seven arrangements), n '*' in a row (to 257), n copies
                      of a regex-special literal (to 100), the brace expressions '?{n}' '*{n}' 'a{n}' 'a{1,n}' '?{n,}', a list of n
                      patterns (four kinds), a document of n Files paragraphs (to 1001 at quick) - each with names on both sides of
                      the count; specials - 60 small patterns made of regex-special literals (braces with digits, brackets, groups,
                      anchors, alternation) alone / first / last in a list / inside a pattern x ~35 names; SIZE ladders - a pattern
                      (to 16 Ki at quick) and a name (to 256 Ki) of exactly L characters with a newline / slash / multi-byte character
                      at the block boundaries.  Signatures start with the family ("ladder/question-run/via-create/matches/...").
"""
import io
import warnings
import itertools
import logging

from .. import core
from ..models import glob

ID = "C16"
LEVEL = "model_checking"
RULE = ("Engine B: states = pattern lists generated (trie of patterns, then of lists) + names; transitions = one "
        "pattern/symbol extensions; traces = (route, pattern list, name) triples executed on FilesParagraph.matches / "
        "(route, document, name) on find_files_paragraph; Engine A (hist): states = distinct (current list, list last "
        "compiled) model states reached by BFS, transitions = operations applied, traces = complete histories "
        "replayed on a fresh paragraph in tree mode.  Non-trivial = (list, name) pairs whose verdict is a match or a "
        "format error (plain 'no match' is the trivial verdict); histories in which the list changes between two "
        "matches() calls; (document, name) pairs where first and last matching paragraph differ.  sweep: states = "
        "pattern lists built around one swept literal, transitions = the same, traces = (route, list, name) triples, "
        "each on a fresh paragraph (a few coincide with triples of the single/pairs parts).  dockinds: the way the "
        "document text reaches Copyright(...) is one more choice below (document, route 'parse'): states = documents, "
        "traces = (input kind, document, name) triples on find_files_paragraph, non-trivial as for doc.  listroutes: states = "
        "pattern lists, traces = (route, list, name) triples, each list installed once per route and asked every name; "
        "non-trivial as for single.  ladder: states = generated pattern lists / documents (one per family, n or L, arrangement), "
        "transitions = the same (documents: paragraphs), traces = (route, list, name) / (route, document, name) triples, "
        "non-trivial = n >= 4 and the verdict is a match or a format error (documents: several paragraphs match)")
BUDGET = {"quick": 240, "thorough": 3000}

HEADER = "Format: https://www.debian.org/doc/packaging-manuals/copyright-format/1.0/\n"
ROUTES = ("create", "parse")


def _n(tier):
    """longest name asked of a document"""
    return 3 if tier == "quick" else 4


def _nl(tier):
    """longest single pattern, and longest name asked of a pattern list (single, pairs, triples)"""
    return 3 if tier == "quick" else 5


HIST_DEPTH = {"quick": 3, "thorough": 6}
DOCHIST_DEPTH = {"quick": 3, "thorough": 5}


def bounds(tier):
    n = _n(tier)
    return {"pattern_alphabet": "a b / * ? \\", "name_alphabet": "a b / * ? \\ \\n",
            "single_pattern_len": "1..%d" % _nl(tier), "name_len": "0..%d for pattern lists, 0..%d for documents" % (_nl(tier), n),
            "pairs": "all ordered pairs of patterns of length 1..2 (42^2 lists)",
            "triples": "all triples of patterns of length 1 (6^3 lists)",
            "routes": list(ROUTES),
            "list_routes": {"routes": list(LIST_ROUTES),
                            "lists": "every single pattern of length 1..2 and every ordered pair of patterns of length 1 (78 lists) x "
                                     "every name of length 0..%d, all routes; every ordered pair of patterns of length 1..2 (42^2 lists) x "
                                     "every name of length 0..2, the routes %s" % (n, LIST_ROUTES_PAIRS),
                            "newline_patterns": "every pattern of length 1..3 over the pattern alphabet + newline that contains a "
                                                "newline, alone and (length <= 2) after a plain pattern, through globs_to_re "
                                                "(list, tuple, generator) x every name of length 0..2",
                            "long_lists": "%d lists of 1..8 copies of %r after a lead-in pattern of 0..13 characters (joined text of "
                                          "13..125 characters) x names %r x routes %s" % (len(long_lists()), LONG_PATTERN, LONG_NAMES, LONG_ROUTES),
                            "warm-up": "where a route edits or copies an existing paragraph, that paragraph first held %r and "
                                       "answered for %r" % (WARM_LIST, WARM_NAME)},
            "doc_routes": {"routes": list(DOC_ROUTES_NEW),
                           "documents": "1 Files paragraph over the 6-list pool x all 4 gap subsets x every name of length 0..%d; 2 "
                                        "Files paragraphs (36) x {no License paragraph, one between them, one in every gap} x every "
                                        "name of length 0..2" % n},
            "history_routes": "hist-graph / hist-tree also with route 'data': the paragraph wraps a Deb822 object the caller keeps, "
                              "and 'files := L' is an assignment to that object's Files field",
            "doc_input_kinds": {"kinds": list(DOC_KINDS),
                                "documents": "1 Files paragraph over the 6-list pool x all 4 gap subsets; 2 Files paragraphs (36) "
                                             "x {no License paragraph, one between them}; x every name of length 0..%d (one "
                                             "paragraph) / 0..2 (two paragraphs)" % n,
                                "other_encoding": "first of %s that can write the document" % (OTHER_ENCODINGS,)},
            "sweep": "one literal at a time: c = each of %d characters (printable ASCII without * ? \\ and white space, "
                     "%d non-ASCII letters) in the lists %r x names %r, both routes"
                     % (len(sweep_chars()), len(SWEEP_NON_ASCII), [[p.replace("%", "<c>") for p in l] for l in SWEEP_LISTS],
                        [n.replace("%", "<c>") for n in SWEEP_NAMES]),
            "beyond_the_small_scope": ladder_bounds(tier),
            "history_depth": HIST_DEPTH[tier], "history_lists": 5, "history_names": 4,
            "history_graph": "fixpoint over (current list, compiled list)",
            "document_history_depth": DOCHIST_DEPTH[tier],
            "doc_paragraphs": "1..3 Files paragraphs over a 6-list pool x every subset of the k+1 gaps holding a "
                              "License paragraph x {text, api}" + ("; 4 Files paragraphs (6^4) x {no License paragraph, one in "
                                                                   "every gap} x {text, api}" if tier == "thorough" else "")}


def assumptions():
    return ["patterns are non-empty and whitespace-free (the Files field is whitespace-separated, so neither an empty "
            "pattern nor one with blanks can be written); an empty Files field (no pattern) is outside the statement, "
            "which speaks of lists of 1..n patterns",
            "a list containing an invalid pattern must be reported as MachineReadableFormatError (a ValueError) "
            "either when the list is installed or by matches(), for every name",
            "find_files_paragraph on a document containing an invalid list: accepted are a format error (at "
            "construction or from the call) or the answer of a scan from the last paragraph that stops at the first "
            "match; the statement does not say which paragraphs have to be consulted",
            "seeds rotate the two literal characters (a -> q . |, b -> Z $ e-acute): a literal is any character "
            "other than * ? \\ and white space, regex metacharacters included",
            "sweep: the swept literals are the printable non-blank ASCII characters other than * ? \\ and a few non-ASCII "
            "letters; control characters are not swept (a pattern is a whitespace-separated word of a deb822 value and "
            "what the deb822 layer does to control characters is not this property's business)",
            "the model (backtracking) is cross-checked against an independent table-driven matcher on every "
            "single pattern x name",
            "input kinds: Copyright documents 'sequence: Sequence of lines, e.g. a list of strings or a file-like object' and "
            "'encoding: Encoding to use, in case input is raw byte strings'; the underlying Deb822.iter_paragraphs also takes "
            "the whole text as one str.  All of these parse the same document on the unchanged library, so every kind must "
            "give the same Files paragraphs and the same find_files_paragraph answers.  Lines 'without newline' are the text "
            "split at '\\n'.  encoding= is only passed together with bytes input (with str input a non-UTF-8 encoding= is not "
            "what the docstring describes)",
            "routes: the pattern list of a paragraph is whatever white-space-separated words its Files field holds, however "
            "the field came into being - create() with a list / tuple / iterator, the files property assigned a list / tuple / "
            "generator (also on a paragraph that already answered for another list), FilesParagraph(Deb822 mapping) with strict "
            "True / False, an edit of the Deb822 object the caller kept (RestrictedWrapper: 'Subclasses may keep a reference to "
            "the data before giving it to this class's constructor'; the pattern cache is keyed by the field text for that "
            "reason), a parsed paragraph whose Files field is laid out on continuation lines / with tabs / runs of blanks / "
            "trailing blanks, whose field names are lower or upper case (deb822 names are case-insensitive), whose Files "
            "field comes last; a document parsed with strict=False (also with Files paragraphs that lack Copyright and "
            "License, and with a paragraph that is neither Files nor License in every gap - both only complained about when "
            "not strict); copy.copy / copy.deepcopy of a paragraph or document (the deep copy keeps answering for its own list "
            "after the original was edited)",
            "routes: globs_to_re(list / tuple / generator) is read with fullmatch, as matches() reads it (the regular "
            "expression text is pinned by the repository's tests and end-anchors only its last alternative); an invalid "
            "pattern must raise the format error from globs_to_re itself",
            "ladders: the statement bounds neither the number of '?' or '*' in a row, nor the patterns per list, the Files "
            "paragraphs per document, the length of a pattern or of a name; braces, digits, brackets, parentheses, '+', '^', '$', "
            "'|', '.' are literals ('any other character matches itself').  Time is not part of the statement: the ladders avoid "
            "inputs on which the unchanged library's '.*'-per-star translation backtracks for seconds (runs of '*' stop at 257 and "
            "are asked names with at most two absorbable characters; '*?' repeated stops at 10; a long literal after a '*' is 7 "
            "characters).  The ladder oracle is a bit-parallel version of the table matcher (mc.models.glob's matchers are "
            "recursive / quadratic in Python), cross-checked against glob.match_dp on the small items; ladders are exhaustive "
            "in n, with a fixed handful of arrangements and names per n",
            "routes left out: files_pattern() (the compiled expression is mechanism, not an answer the statement speaks of); "
            "Files fields containing comment lines or other deb822 layer features; pickling (Deb822 objects hold weak "
            "references)"]


# ------------------------------------------------------------------------------------------------ alphabet

def alphabet(seed):
    a = core.rep(seed, ["a", "q", ".", "|"])
    b = core.rep(seed, ["b", "Z", "$", "é"])
    pa = [a, b, "/", "*", "?", "\\"]
    na = pa + ["\n"]
    return a, b, pa, na


def strings(alpha, lo, hi):
    return ["".join(t) for k in range(lo, hi + 1) for t in itertools.product(alpha, repeat=k)]


def hist_menu(seed):
    a, b, _pa, _na = alphabet(seed)
    lists = [[a], [b], [a + "*"], [a, b + "*"], ["\\" + a]]
    names = [a, b, a + b, a + "\n" + b]
    return lists, names


def dochist_menu(seed):
    a, b, _pa, _na = alphabet(seed)
    return [["*"], [a + "*"], [b], [a, b + "*"]], [a, b, a + b]


def doc_pool(seed):
    a, b, _pa, _na = alphabet(seed)
    return [["*"], [a + "*"], ["?"], ["*" + b, a], ["\\*"], [a + "\\"]]


# ------------------------------------------------------------------------------------------------ sweep

SWEEP_NON_ASCII = ["é", "ß", "Ω", "я", "中", "ø", "ж", "λ"]
SWEEP_LISTS = [["%"], ["a%"], ["%*"], ["*%"], ["?%"], ["a", "%"]]
SWEEP_NAMES = ["%", "a%", "%a", "a", "ac", "", "%%"]
SWEEP_CHUNK = 9


def sweep_chars():
    return [chr(cp) for cp in range(0x21, 0x7F) if chr(cp) not in "*?\\"] + SWEEP_NON_ASCII


def sweep_items(c):
    """-> (pattern lists, names) for one swept literal, canonical order, no repetitions"""
    lists, names = [], []
    for l in SWEEP_LISTS:
        x = [p.replace("%", c) for p in l]
        if x not in lists:
            lists.append(x)
    for n in SWEEP_NAMES:
        x = n.replace("%", c)
        if x not in names:
            names.append(x)
    return lists, names


def _sweep(part, u):
    for c in u["chars"]:
        lists, names = sweep_items(c)
        for files in lists:
            part.states += 1
            part.transitions += 1
            kk = _kinds_key(files)
            for ri, route in enumerate(ROUTES):
                for nm in names:
                    case = {"part": "list", "route": route, "files": files, "name": nm}
                    bad = run_list_case(case)
                    part.traces += 1
                    part.evaluations += 1
                    for sig, e, o in bad:
                        part.violation(sig, case, e, o, rank=100)
                    if ri == 0:
                        exp = expected(files, nm)
                        if exp is not False:
                            part.nontrivial += 1
                        part.outcomes["sweep:%s[%s]x%d" % ("VIOLATION" if bad else "match" if exp else "nomatch", kk, len(files))] += 1
    part.max_depth = 2
    lists, names = sweep_items(u["chars"][0])
    part.sample({"part": "list", "route": "create", "files": lists[2], "name": names[1]})
    return part



# ------------------------------------------------------------------------------------------------ routes
# "the other way in": the same pattern list installed, and the same question asked, the other public ways.

LIST_ROUTES = ["create-tuple", "create-iterator", "constructor", "constructor-nonstrict", "set-after-create", "set-tuple",
               "set-generator", "data-edit", "deepcopy", "deepcopy-then-original-edited", "copy", "matches-keyword",
               "parse-multiline", "parse-multiline-first-on-field-line", "parse-tab", "parse-blanks", "parse-lowercase",
               "parse-uppercase", "parse-files-last", "parse-nonstrict", "parse-nonstrict-files-only",
               "globs_to_re-list", "globs_to_re-tuple", "globs_to_re-generator"]
# the routes in which the list reaches the library as more than one thing (words of a laid-out field, items drawn from an
# iterator, ...) - these are also run over every ordered pair of patterns of length 1..2
LIST_ROUTES_PAIRS = ["create-iterator", "constructor", "set-generator", "data-edit", "deepcopy-then-original-edited",
                     "parse-multiline", "parse-multiline-first-on-field-line", "parse-tab", "parse-blanks", "parse-files-last",
                     "parse-nonstrict-files-only", "globs_to_re-generator"]
WARM_LIST, WARM_NAME = ["zz*"], "zzz"


class _ReAdapter(object):
    """globs_to_re(...) read the way matches() reads it: the whole name must be matched"""

    def __init__(self, files, pat):
        self.files = tuple(files)
        self.pat = pat

    def matches(self, name):
        return self.pat.fullmatch(name) is not None


class _KeywordAdapter(object):
    def __init__(self, fp):
        self.fp = fp

    @property
    def files(self):
        return self.fp.files

    def matches(self, name):
        return self.fp.matches(filename=name)


def _fields_text(files, layout):
    f = " ".join(files)
    if layout == "parse-multiline":
        return "Files:\n" + "".join(" %s\n" % p for p in files) + "Copyright: c\nLicense: l\n"
    if layout == "parse-multiline-first-on-field-line":
        return "Files: " + "\n ".join(files) + "\nCopyright: c\nLicense: l\n"
    if layout == "parse-tab":
        return "Files:\t" + "\t".join(files) + "\t\nCopyright: c\nLicense: l\n"
    if layout == "parse-blanks":
        return "Files:    " + "   ".join(files) + "  \nCopyright: c\nLicense: l\n"
    if layout == "parse-lowercase":
        return "files: %s\ncopyright: c\nlicense: l\n" % f
    if layout == "parse-uppercase":
        return "FILES: %s\nCOPYRIGHT: c\nLICENSE: l\n" % f
    if layout == "parse-files-last":
        return "Copyright: c\nLicense: l\nComment: x\nFiles: %s\n" % f
    if layout == "parse-nonstrict-files-only":
        return "Files: %s\n" % f
    return files_text(files)


def build_route(files, route):
    """-> ('ok', object with .files and .matches) | ('fail', 'ERR' | ('raise', cls))"""
    import copy
    C = _copyright()
    from debian import deb822
    try:
        if route == "create-tuple":
            return ("ok", C.FilesParagraph.create(tuple(files), "c", C.License("l")))
        if route == "create-iterator":
            return ("ok", C.FilesParagraph.create(iter(list(files)), "c", C.License("l")))
        if route in ("constructor", "constructor-nonstrict"):
            d = deb822.Deb822({"Files": " ".join(files), "Copyright": "c", "License": "l"})
            return ("ok", C.FilesParagraph(d, strict=(route == "constructor")))
        if route in ("set-after-create", "set-tuple", "set-generator"):
            fp = C.FilesParagraph.create(list(WARM_LIST), "c", C.License("l"))
            fp.matches(WARM_NAME)
            fp.files = list(files) if route == "set-after-create" else tuple(files) if route == "set-tuple" else (p for p in list(files))
            return ("ok", fp)
        if route == "data-edit":
            # "Subclasses may keep a reference to the data before giving it to this class's constructor": the pattern
            # is cached by the text of the Files field, so the paragraph follows an edit of the underlying mapping
            d = deb822.Deb822({"Files": " ".join(WARM_LIST), "Copyright": "c", "License": "l"})
            fp = C.FilesParagraph(d)
            fp.matches(WARM_NAME)
            d["Files"] = " ".join(files)
            return ("ok", fp)
        if route in ("deepcopy", "deepcopy-then-original-edited", "copy"):
            fp0 = C.FilesParagraph.create(list(files), "c", C.License("l"))
            try:
                fp0.matches(WARM_NAME)
            except ValueError:
                pass
            fp = copy.copy(fp0) if route == "copy" else copy.deepcopy(fp0)
            if route == "deepcopy-then-original-edited":
                fp0.files = list(WARM_LIST)
                fp0.matches(WARM_NAME)
            return ("ok", fp)
        if route == "matches-keyword":
            return ("ok", _KeywordAdapter(C.FilesParagraph.create(list(files), "c", C.License("l"))))
        if route.startswith("parse-"):
            strict = not route.startswith("parse-nonstrict")
            doc = C.Copyright((HEADER + "\n" + _fields_text(files, route)).splitlines(True), strict=strict)
            ps = list(doc.all_files_paragraphs())
            if len(ps) != 1:
                return ("fail", ("paragraphs", len(ps)))
            return ("ok", ps[0])
        if route.startswith("globs_to_re-"):
            arg = list(files) if route.endswith("-list") else tuple(files) if route.endswith("-tuple") else (p for p in list(files))
            return ("ok", _ReAdapter(files, C.globs_to_re(arg)))
    except Exception as e:
        return ("fail", _exc(C, e))
    raise AssertionError(route)


def run_listroute_case(case):
    files, name, route = case["files"], case["name"], case["via"]
    res = build_route(files, route)
    j = judge_build(files, res)
    if not j and res[0] == "ok":
        for nm in case.get("before", []):
            observe(res[1], nm)
        j = judge(files, name, observe(res[1], name))
    return [("via-%s/%s" % (route, j[0]),) + tuple(j[1:])] if j else []


LONG_PATTERN = "third-party/*"         # 13 characters with a hyphen: a place where text-folding code likes to break
LONG_ROUTES = ["create-tuple", "create-iterator", "constructor", "set-after-create", "set-tuple", "data-edit", "deepcopy",
               "parse-multiline", "globs_to_re-list"]
LONG_NAMES = ["third-party/x", "party/x", "third-", "third-party/", "hird-party/x", "x"]


def long_lists():
    """Files lists whose joined text is 13 .. 125 characters long, a hyphen on every column from 5 to 120"""
    out = []
    for k in range(1, 9):
        for o in range(0, 14):
            out.append((["x" * o] if o else []) + [LONG_PATTERN] * k)
    return out


def listroute_lists(u):
    pa = u["pa"]
    if u["space"] == "long-lists":
        return long_lists()
    if u["space"] == "dot-patterns":
        # a pattern that is a lone dot (the empty-line marker of multi-line fields when it stands alone on a continuation line)
        return [["."], ["x", "."], [".", "x"], ["..", "."], ["./*", "."], [".", "*.", ".?"]]
    if u["space"] == "newline-patterns":
        # patterns with a newline in them (the quantifier names them; a Files field cannot carry one, globs_to_re can)
        ps = [p for p in strings(pa + ["\n"], 1, 3) if "\n" in p]
        return [[p] for p in ps] + [[pa[0], p] for p in ps if len(p) <= 2]
    if u["space"] == "small-lists":
        return [[p] for p in strings(pa, 1, 2)] + [[p, q] for p in pa for q in pa]
    return [[u["first"], q] for q in strings(pa, 1, 2)]


def _listroutes(part, u):
    names = u.get("names") or strings(u["na"], 0, u["n"])
    lists = listroute_lists(u)
    for files in lists:
        part.states += 1
        part.transitions += 1
        exp = [expected(files, nm) for nm in names]
        for route in u["routes"]:
            res = build_route(files, route)
            part.evaluations += 1
            j = judge_build(files, res)
            if j:
                part.violation("via-%s/%s" % (route, j[0]), {"part": "listroute", "via": route, "files": list(files), "name": ""}, j[1], j[2], rank=50)
                continue
            if res[0] != "ok":
                part.outcomes["via-%s:rejected-when-installed" % route] += 1
                continue
            for qi, nm in enumerate(names):
                got = observe(res[1], nm)
                part.traces += 1
                part.evaluations += 1
                if got != exp[qi]:
                    case = {"part": "listroute", "via": route, "files": list(files), "name": nm}
                    j = judge(files, nm, got)
                    if not run_listroute_case(case):
                        case["before"] = names[:qi]        # a fresh object answers differently: replay the earlier questions
                        j = ("history-dependent/" + j[0],) + tuple(j[1:])
                    part.violation("via-%s/%s" % (route, j[0]), case, j[1], j[2], rank=50)
                elif exp[qi] is not False:
                    part.nontrivial += 1
            part.outcomes["via-%s:%s x%d" % (route, "format-error" if exp[0] == "ERR" else "answers", len(files))] += 1
            part.extra["lists installed via " + route] += 1
    part.max_depth = 2
    part.sample({"part": "listroute", "via": u["routes"][0], "files": lists[-1], "name": names[-1]})
    return part



# ------------------------------------------------------------------------------------------------ beyond the small scope
# COUNT ladders: one otherwise simple pattern list (and a handful of names chosen around the count) for every n in 1..40 and
# the block-size neighbours, per kind of repeatable element: '?' in a row, '*' in a row, a regex-special literal in a row,
# the digits of a brace expression after '?', patterns per list, Files paragraphs per document.  SIZE ladders: one pattern
# / one name of exactly L characters.  specials: regex-special literals (braces with digits, brackets, groups, anchors,
# alternation, quantifiers) inside otherwise small patterns.  Inputs are generated from the compact case
# ({"part": "ladder", "fam": ..., "n": ..., "arr": ..., "route": ..., "q": index of the name}).
# The oracle is a third matcher (bit-parallel table, below) because the recursive model cannot run 5000 tokens; it is
# cross-checked against glob.match_dp on every ladder item of up to 130 tokens.

LADDER_NS = list(range(1, 41)) + [63, 64, 65, 100, 127, 128, 129, 255, 256, 257, 999, 1000, 1001, 1025, 2500, 2501, 5000]
STAR_NS = [n for n in LADDER_NS if n <= 257]        # runs of '*': the library's backtracking regex needs C(n+k, k) steps to say no
SIZE_LS = [997, 998, 999, 1000, 4095, 4096, 4097, 16383, 16384, 16385, 65535, 65536, 65537, 131071, 131072, 131073,
           262143, 262144, 262145]
ALTERNATING_TOP = 10     # '*?' n times: the regex '.*.' n times explores C(2n, n) splits before it finds the all-empty one
PATTERN_SIZE_TOP = {"quick": 16385, "thorough": 262145}      # the table oracle is quadratic in the length of a literal pattern
DOC_PARAS_TOP = {"quick": 1001, "thorough": 5000}
LADDER_ROUTES = ["create", "parse", "globs_to_re-list"]
SPECIAL_CHARS = "{}[]()+^$|.-,<>=!:#&~"
SPECIAL_PATTERNS = ["a{2}", "a{1,}", "a{,2}", "a{1,2}", "{2}", "?{2}", "*{2}", "?{1,}", "[a]", "[ab]", "[a-b]", "[^a]", "[]", "(x)", "(a|b)",
                    "(?:a)", "(?i)a", "a+", "a+?", "a*+", "+", "^a", "a$", "^", "$", "a|b", "|", "a|", "|a", ".", "a.b", ".*", ".?", "\\\\d",
                    "\\\\.", "\\*+", "\\?{2}", "a{2}*", "{", "}", "a{", "a}", "a{b}", "1{2}3", "a{0}", "a{00}", "a{10}", "x{2}{3}", "#", "a#b",
                    "(?#c)a", "a{2,1}", "(", ")", "[", "]", "[[:alpha:]]", "\\\\Z", "a\\\\", "\\\\\\\\"]

LADDER_FAMS = {
    # family -> (arrangements, counts)
    "ladder/question-run": (["alone", "leading", "trailing", "middle", "before-star", "after-star", "two-runs"], LADDER_NS),
    "ladder/star-run": (["alone", "leading", "trailing", "middle", "alternating-with-question"], STAR_NS),
    "ladder/special-run": (list(SPECIAL_CHARS), list(range(1, 41)) + [64, 100]),
    "ladder/brace-count": (["question", "star", "literal", "range", "open-range"], list(range(1, 41)) + [64, 100, 128, 1000]),
    "ladder/patterns-per-list": (["literals", "directories", "one-character", "questions"], LADDER_NS),
}


_TOKS = [None, None]


def _match_bits(pattern, name):
    """glob.tokens + one big integer as the table row: bit j set = 'the tokens so far can consume name[:j]'"""
    if _TOKS[0] != pattern:
        _TOKS[:] = [pattern, glob.tokens(pattern)]
    toks = _TOKS[1]
    n = len(name)
    full = (1 << (n + 1)) - 1
    masks = {}
    for c in set(t[1] for t in toks if t[0] == glob.LIT):
        if c in name:
            masks[c] = int(name[::-1].translate(dict((ord(ch), "1" if ch == c else "0") for ch in set(name))), 2)
    reach = 1
    for t in toks:
        if not reach:
            return False
        if t[0] == glob.STAR:
            low = reach & -reach
            reach = full & ~(low - 1)
        elif t[0] == glob.ANY:
            reach = (reach << 1) & full
        else:
            reach = ((reach & masks.get(t[1], 0)) << 1) & full
    return bool(reach >> n & 1)


def ladder_expected(files, name):
    for p in files:
        if "\\" in p and glob.validity(p):
            return "ERR"
    return any(_match_bits(p, name) for p in files)


def ladder_items(fam, n, arr, a, b):
    """-> (pattern list, names) of one ladder item; the names sit on both sides of the count"""
    x = "x" if "x" not in (a, b) else "y"
    if fam == "ladder/question-run":
        q = "?" * n
        pat = {"alone": q, "leading": q + b, "trailing": a + q, "middle": a + q + b, "before-star": q + "*", "after-star": "*" + q,
               "two-runs": q + a + q}[arr]
        pre = a if arr in ("trailing", "middle") else ""
        post = b if arr in ("leading", "middle") else ""
        names = [pre + x * k + post for k in (n - 1, n, n + 1) if k >= 0]
        names += [pre + x * (n // 2) + c + x * (n - n // 2 - 1) + post for c in ("\n", "/", "?")]
        if arr == "two-runs":
            names = [x * n + a + x * n, x * (n - 1) + a + x * n, x * n + a + x * (n + 1), x * (2 * n + 1), a * (2 * n + 1), a * (2 * n)]
        if arr in ("before-star", "after-star"):
            names += [x * (2 * n), ""]
        return [pat], names
    if fam == "ladder/star-run":
        st = "*" * n
        pat = {"alone": st, "leading": st + b, "trailing": a + st, "middle": a + st + b, "alternating-with-question": "*?" * n}[arr]
        if arr == "alternating-with-question":
            return [pat], [x * n, x * (n + 1), x * (n - 1), x * (n // 2) + "\n" + x * (n - n // 2)]
        # names a run of stars can say no to without many steps (the regex backtracks over every split of what the run
        # may absorb): at most two absorbable characters up to n = 65, one above
        names = ["", a, b, a + b, b + a, a + "/" + b, a + "\n" + b, x]
        if n <= 65:
            names += [a + b + a, a + x + x + b, b + b, a + a]
        return [pat], names
    if fam == "ladder/special-run":
        c = arr
        return [c * n], [c * n, c * (n - 1), c * (n + 1), "", a * n, c]
    if fam == "ladder/brace-count":
        d = str(n)
        pat = {"question": "?{%s}" % d, "star": "*{%s}" % d, "literal": a + "{%s}" % d, "range": a + "{1,%s}" % d, "open-range": "?{%s,}" % d}[arr]
        tail = pat[1:]
        names = [a + tail, x + tail, x * n, a * n, a * (n + 1), a, "", tail, x * min(n, 50) + tail]
        return [pat], names
    if fam == "ladder/patterns-per-list":
        if arr == "literals":
            files = ["p%d" % i for i in range(n)]
            names = ["p0", "p%d" % (n - 1), "p%d" % (n // 2), "p%d" % n, "p%dx" % (n - 1), "p0x", "p%dx" % (n // 2), "p", "xp0",
                     "p0\n", "p0 p1", "p%d" % (n - 2 if n > 1 else 7)]
        elif arr == "directories":
            files = ["d%d/*" % i for i in range(n)]
            names = ["d0/f", "d%d/f" % (n - 1), "d%d/f/g\nh" % (n // 2), "d%d/f" % n, "d%d" % (n - 1), "xd0/f", "d0/", "d/"]
        elif arr == "one-character":
            al = "abcdefghijklmnopqrstuvwxyz0123456789"
            files = [al[i % 36] for i in range(n)]
            names = ["a", al[(n - 1) % 36], al[n % 36] if n < 36 else "_", "ab", "", "aa", al[(n - 1) % 36] + "a"]
        else:
            files = ["?" * (i + 1) + b for i in range(min(n, 200))] + ["q%d" % i for i in range(200, n)]
            names = [x + b, x * min(n, 200) + b, x * (min(n, 200) + 1) + b, x * (min(n, 200) // 2 + 1) + b, b, x * min(n, 200), "q%d" % (n - 1)]
        return files, names
    if fam == "specials":
        sp = SPECIAL_PATTERNS[n]
        files = {"alone": [sp], "first": [sp, b], "last": [b, sp], "inside": [a + sp + b]}[arr]
        lit = sp.replace("\\\\", "\\")
        base = [lit, "a", "aa", "", "b", "x", "ab", "a" * 10, "a{2}", "a{1,}", "a2", "{2}", "xx", "xy{2}", "a|b", ".", "a.b", "axb", "d", "\\d", "\\",
                "\\\\", "a\\", "*+", "**", "?{2}", "??", lit + lit, lit[:-1], lit[1:], "A", "1223", "123", "a#b", "a\n", "\na"]
        names = []
        for nm in base + ([a + nm + b for nm in base] if arr == "inside" else []):
            if nm not in names:
                names.append(nm)
        return files, names
    if fam == "size/pattern":
        L = n
        if arr == "literal":
            pat = a * (L - 1) + b
            names = [pat, pat[:-1], pat + b, a * L, pat[:L // 2] + x + pat[L // 2 + 1:]]
        elif arr == "literal-with-marks":
            buf = [a] * L
            for m in _size_marks(L):
                buf[m] = b
            pat = "".join(buf)
            names = [pat, pat[:-1], a * L] + [pat[:m] + a + pat[m + 1:] for m in _size_marks(L)[:4]] + [pat[:m - 1] + b + pat[m:] for m in _size_marks(L)[-2:]]
        elif arr == "questions":
            pat = "?" * L
            names = [x * L, x * (L - 1), x * (L + 1), x * (L // 2) + "\n" + x * (L - L // 2 - 1)]
        else:
            # a short tail: the regex retries the tail at every position the star may end at
            pat = a * (L - 8) + "*" + b * 7
            names = [a * (L - 8) + b * 7, a * (L - 8) + x + "\n" + x + b * 7, a * (L - 8) + b * 6, a * (L - 9) + b * 7, a * (L - 8) + x * 5000 + b * 7]
        return [pat], names
    if fam == "size/name":
        L = n
        body = [x] * L
        if arr == "newline-at-marks":
            for m in _size_marks(L):
                body[m] = "\n"
        elif arr == "slash-at-marks":
            for m in _size_marks(L):
                body[m] = "/"
        elif arr == "multibyte-at-marks":
            for m in _size_marks(L):
                body[m] = "字"
        nm = a + "".join(body[1:-1]) + b
        assert len(nm) == L
        files_list = [["*"], [a + "*"], ["*" + b], [a + "*" + b], ["?*"], [a + "*/*" + b], ["*\\*"], [b + "*", "*" + a], [a + "?" + "*" + "?" + b], [b, a]]
        return files_list, [nm, nm[:-1], nm[1:], nm + a]
    raise AssertionError(fam)


def _size_marks(L):
    m = set()
    for blk in (16384, 65536):
        for k in range(blk, L, blk):
            m.update((k - 1, k))
    m.update((L - 2, L // 2))
    return sorted(i for i in m if 1 <= i <= L - 2)


def ladder_bounds(tier):
    return {"counts": "n = 1..40, 63, 64, 65, 100, 127, 128, 129, 255, 256, 257, 999, 1000, 1001, 1025, 2500, 2501, 5000 (every n); runs of "
                      "'*' up to 257 only (the library translates each '*' to '.*' and its backtracking matcher needs C(n+k, k) steps to "
                      "refuse a name with k absorbable characters: 1025 stars against 'aba' take 2 s, 5000 take minutes - speed is not "
                      "part of the statement); Files paragraphs per document up to %d" % DOC_PARAS_TOP[tier],
            "count_families": {f: {"arrangements": v[0], "n": "%d counts, largest %d" % (len(v[1]), v[1][-1])} for f, v in sorted(LADDER_FAMS.items())},
            "count_meaning": {"ladder/question-run": "a pattern with n '?' in a row (alone, before / after / between literals, next to a '*', two "
                                                     "runs) x names of n-1, n, n+1 characters and names with a newline / slash / '?' inside the run",
                              "ladder/star-run": "a pattern with n '*' in a row (and '*?' n times, n <= %d) x short names" % ALTERNATING_TOP,
                              "ladder/special-run": "a pattern made of n copies of one regex-special literal (%s) x names of n-1, n, n+1 copies" % SPECIAL_CHARS,
                              "ladder/brace-count": "patterns '?{n}', '*{n}', 'a{n}', 'a{1,n}', '?{n,}' (braces and digits are literals) x the literal "
                                                    "name and the names a regex quantifier would accept",
                              "ladder/patterns-per-list": "lists of n patterns (distinct literals p0..p<n-1>, directory globs, single characters, "
                                                          "'?'-runs of growing length) x names matched by the first / middle / last / no pattern and "
                                                          "names that extend a pattern by one character",
                              "ladder/files-paragraphs": "documents of n Files paragraphs (every paragraph matches; only the first / last; "
                                                         "every third, with License paragraphs in between) x names, for "
                                                         "find_files_paragraph, parsed and built through the API"},
            "specials": {"patterns": SPECIAL_PATTERNS, "arrangements": ["alone", "first", "last", "inside"],
                         "names": "the pattern text itself and ~35 names a regular expression with that text would accept"},
            "sizes": {"L": SIZE_LS, "size/pattern": "one pattern of L characters (literal with another letter at every block boundary; "
                                                    "L '?'; a literal of L-8 characters, one '*', a literal of 7), L <= %d in this tier" % PATTERN_SIZE_TOP[tier],
                      "size/name": "one name of L characters (plain; newline / slash / three-byte character exactly before and at every "
                                   "multiple of 16384 and 65536, in the middle and at L-2) x 10 small pattern lists; also the name shortened "
                                   "at either end and extended"},
            "routes": "%s for the count ladders and the specials; size/name: create; size/pattern: create, parse; "
                      "documents: %s" % (LADDER_ROUTES, DOC_LADDER_ROUTES),
            "oracle": "bit-parallel table matcher in this module, cross-checked against mc.models.glob.match_dp on every item of <= 130 "
                      "pattern tokens and <= 300 name characters"}


def ladder_units(tier):
    out = []
    for fam in sorted(LADDER_FAMS):
        arrs, ns = LADDER_FAMS[fam]
        for arr in arrs:
            out.append({"part": "ladder", "fam": fam, "arr": arr,
                        "ns": [n for n in ns if n <= ALTERNATING_TOP] if arr == "alternating-with-question" else list(ns)})
    for arr in ("alone", "first", "last", "inside"):
        out.append({"part": "ladder", "fam": "specials", "arr": arr, "ns": list(range(len(SPECIAL_PATTERNS)))})
    for arr in ("literal-with-marks", "questions", "around-a-star"):
        out.append({"part": "ladder", "fam": "size/pattern", "arr": arr, "ns": [L for L in SIZE_LS if L <= PATTERN_SIZE_TOP[tier]]})
    for arr in ("plain", "newline-at-marks", "slash-at-marks", "multibyte-at-marks"):
        out.append({"part": "ladder", "fam": "size/name", "arr": arr, "ns": list(SIZE_LS)})
    for arr in DOC_LADDER_ARRS:
        out.append({"part": "ladder", "fam": "ladder/files-paragraphs", "arr": arr, "ns": [n for n in LADDER_NS if n <= DOC_PARAS_TOP[tier]]})
    return out


def ladder_routes(fam, n, tier):
    """how the list is installed: all three ways for the count ladders; a long NAME is asked of a created paragraph only (the
    patterns are small); a long PATTERN goes through create and through a parsed Files field"""
    if fam == "size/name":
        return ["create"]
    if fam == "size/pattern":
        return ["create", "parse"]
    return LADDER_ROUTES


def _ladder_sig(files, name, exp, got):
    if isinstance(got, tuple):
        return "matches/%s/%s" % (got[0], got[1] if got[0] == "raise" else "not-bool")
    if exp == "ERR":
        return "matches/accepts-invalid"
    if got == "ERR":
        return "matches/rejects-valid-pattern"
    if exp is True:
        return "matches/false-negative/" + ("newline-in-name" if "\n" in name else "slash-in-name" if "/" in name else "other")
    return "matches/false-positive"


def _ladder_build(files, route):
    if route in ROUTES:
        return build(files, route)
    return build_route(files, route)


def run_ladder_case(case):
    """one (family, n, arrangement, route, name index) -> violations"""
    fam = case["fam"]
    if fam == "ladder/files-paragraphs":
        return run_docladder_case(case)
    items = ladder_items(fam, case["n"], case["arr"], case["a"], case["b"])
    if fam == "size/name":
        files, names = items[0][case["l"]], items[1]
    else:
        files, names = items
    res = _ladder_build(files, case["route"])
    pre = "%s/via-%s/" % (fam, case["route"])
    j = judge_build(files, res)
    if j:
        return [(pre + j[0],) + tuple(j[1:])]
    if res[0] != "ok":
        return []
    for nm in names[:case["q"]] if case.get("replay_earlier") else []:
        observe(res[1], nm)
    name = names[case["q"]]
    exp, got = ladder_expected(files, name), observe(res[1], name)
    if got == exp:
        return []
    return [(pre + _ladder_sig(files, name, exp, got), "Files %s matches(%s) -> %s" % (core._short(" ".join(files), 120), core._short(repr(name), 120), _show(exp)),
             _show(got) if not isinstance(got, tuple) else repr(got))]


def _ladder_unit(part, u, seed, tier):
    fam, arr = u["fam"], u["arr"]
    if fam == "ladder/files-paragraphs":
        return _docladder_unit(part, u, seed)
    a, b, _pa, _na = alphabet(seed)
    size = fam.startswith("size/")
    first_case = None
    for n in u["ns"]:
        items = ladder_items(fam, n, arr, a, b)
        lists = [(None, items[0])] if fam != "size/name" else list(enumerate(items[0]))
        names = items[1]
        for li, files in lists:
            part.states += 1
            part.transitions += 1
            exps = [ladder_expected(files, nm) for nm in names]
            if sum(len(glob.tokens(p)) for p in files if not glob.validity(p)) <= 130 and exps[0] != "ERR":
                for nm, e in zip(names, exps):
                    if len(nm) <= 300 and any(glob.match_dp(p, nm) for p in files) != e:
                        raise AssertionError("model self-check: bit table and glob.match_dp disagree on %r %r" % (files, nm))
                    part.extra["model_selfcheck_pairs"] += 1
            for route in ladder_routes(fam, n, tier):
                base = {"part": "ladder", "fam": fam, "n": n, "arr": arr, "route": route, "a": a, "b": b}
                if li is not None:
                    base["l"] = li
                first_case = first_case or dict(base, q=0)
                res = _ladder_build(files, route)
                part.evaluations += 1
                j = judge_build(files, res)
                if j:
                    part.violation("%s/via-%s/%s" % (fam, route, j[0]), dict(base, q=0), j[1], j[2], rank=n)
                    continue
                if res[0] != "ok":
                    part.outcomes["%s:rejected-when-installed" % fam] += 1
                    continue
                for q, nm in enumerate(names):
                    got = observe(res[1], nm)
                    part.traces += 1
                    part.evaluations += 1
                    if got != exps[q]:
                        case = dict(base, q=q)
                        bad = run_ladder_case(case)
                        if not bad:
                            case["replay_earlier"] = True
                            bad = [("history-dependent/" + b0[0],) + tuple(b0[1:]) for b0 in run_ladder_case(case)]
                            if not bad:
                                raise AssertionError("explorer and run_ladder_case disagree on %r" % (case,))
                        for sig, e, o in bad:
                            part.violation(sig, case, e, o, rank=n)
                    if route == "create":
                        if exps[q] is not False and n >= 4:
                            part.nontrivial += 1
                        part.outcomes["%s %s %s: %s" % (fam, arr if fam != "ladder/special-run" else "char", "L" if size else _n_class(n),
                                                        "error" if exps[q] == "ERR" else "match" if exps[q] else "nomatch")] += 1
            part.extra["lists of a size ladder" if size else "lists of the special-literal set" if fam == "specials" else "lists of a count ladder"] += 1
        part.max_depth = max(part.max_depth, 3 if size or fam == "specials" else n)
    part.sample(first_case)
    return part


def _n_class(n):
    return "n<=3" if n <= 3 else "n<=40" if n <= 40 else "n<=257" if n <= 257 else "n<=1025" if n <= 1025 else "n>=2500"


# ---- documents with many Files paragraphs

DOC_LADDER_ARRS = ["all-match", "only-first", "only-last", "every-third-with-licences"]
DOC_LADDER_ROUTES = ["parse", "api"]


def docladder_layout(n, arr, a, b):
    """-> (layout, names)"""
    hit = a + "*"
    layout = []
    for i in range(n):
        if arr == "all-match":
            fl = [hit, "p%d" % i]
        elif arr == "only-first":
            fl = [hit] if i == 0 else ["p%d" % i]
        elif arr == "only-middle":
            fl = [hit] if i == n // 2 else ["p%d" % i]
        elif arr == "only-last":
            fl = [hit] if i == n - 1 else ["p%d" % i]
        elif arr == "first-and-last":
            fl = [hit] if i in (0, n - 1) else ["p%d" % i]
        elif arr == "every-third-with-licences":
            fl = [hit, "q%d" % i] if i % 3 == 0 else ["p%d" % i, "d%d/*" % i]
            if i % 2:
                layout.append(("L",))
        else:
            fl = ["p%d" % i]
        layout.append(("F", fl))
    names = [a + "z", "p0", "p%d" % (n - 1), "p%d" % (n // 2), "p%d" % n, "d%d/x" % (n - 1), "p%dx" % (n - 1)]
    return layout, names


def run_docladder_case(case):
    layout, names = docladder_layout(case["n"], case["arr"], case["a"], case["b"])
    inner = {"part": "doc", "route": case["route"], "layout": [list(p) for p in layout], "name": names[case["q"]]}
    return [("ladder/files-paragraphs/" + b0[0],) + tuple(core._short(x, 300) for x in b0[1:]) for b0 in run_doc_case(inner)]


def _docladder_unit(part, u, seed):
    a, b, _pa, _na = alphabet(seed)
    arr = u["arr"]
    case = None
    for n in u["ns"]:
        layout, names = docladder_layout(n, arr, a, b)
        file_lists = [p[1] for p in layout if p[0] == "F"]
        part.states += 1
        part.transitions += len(layout)
        for route in DOC_LADDER_ROUTES:
            res = build_doc(layout, route)
            part.evaluations += 1
            case = {"part": "ladder", "fam": "ladder/files-paragraphs", "n": n, "arr": arr, "route": route, "q": 0, "a": a, "b": b}
            j = judge_doc_build(file_lists, res)
            if j or res[0] != "ok":
                j = j or ("doc/build-fails", "document accepted", repr(res[1]))
                part.violation("ladder/files-paragraphs/" + _ksig(route, j[0]), case, core._short(j[1], 300), core._short(j[2], 300), rank=n)
                continue
            for q, nm in enumerate(names):
                got = observe_find(res[1], res[2], nm)
                part.traces += 1
                part.evaluations += 1
                verdicts = [ladder_expected(fl, nm) for fl in file_lists]
                ok = find_answers(verdicts)
                if got not in ok:
                    c2 = dict(case, q=q)
                    bad = run_docladder_case(c2)
                    if not bad:
                        bad = [("ladder/files-paragraphs/" + _ksig(route, "find/history-dependent"), "paragraph #%s" % (ok[0],), _showidx(got))]
                    for sig, e, o in bad:
                        part.violation(sig, c2, e, o, rank=n)
                if route == DOC_LADDER_ROUTES[0]:
                    hits = sum(1 for v in verdicts if v is True)
                    if hits > 1 and n >= 4:
                        part.nontrivial += 1
                    part.outcomes["ladder/files-paragraphs %s %s: %s" % (arr, _n_class(n), "none" if not hits else "unique-match" if hits == 1 else "several-matches")] += 1
        part.extra["documents of a count ladder"] += 1
        part.max_depth = max(part.max_depth, n)
    part.sample(case)
    return part


# ------------------------------------------------------------------------------------------------ units

def units(tier, seed):
    n = _n(tier)
    a, b, pa, na = alphabet(seed)
    base = {"pa": pa, "na": na, "n": n}
    lbase = dict(base, n=_nl(tier))
    out = []
    out.append(dict(lbase, part="single", length=1, prefix=""))
    out.append(dict(lbase, part="single", length=2, prefix=""))
    for c in pa:
        out.append(dict(lbase, part="single", length=3, prefix=c))
    for length in range(4, _nl(tier) + 1):
        for c in strings(pa, 2, 2):
            out.append(dict(lbase, part="single", length=length, prefix=c))
    short = strings(pa, 1, 2)
    for p in short:
        out.append(dict(lbase, part="pairs", first=p))
    for p in pa:
        out.append(dict(lbase, part="triples", first=p))
    sc = sweep_chars()
    for i in range(0, len(sc), SWEEP_CHUNK):
        out.append({"part": "sweep", "chars": sc[i:i + SWEEP_CHUNK]})
    lists, names = hist_menu(seed)
    depth = HIST_DEPTH[tier]
    for route in ROUTES + ("data",):
        out.append({"part": "hist-graph", "route": route, "lists": lists, "names": names})
    for route in ROUTES + ("data",):
        for init in range(len(lists)):
            out.append({"part": "hist-tree", "route": route, "lists": lists, "names": names, "init": init,
                        "depth": depth})
    # histories on one Copyright object: lookups interleaved with edits of the Files lists and added paragraphs
    dh_pool, dh_names = dochist_menu(seed)
    for route in ("parse", "api"):
        for i in range(len(dh_pool)):
            for j in range(len(dh_pool)):
                out.append({"part": "dochist", "route": route, "pool": dh_pool, "names": dh_names, "init": [i, j],
                            "depth": DOCHIST_DEPTH[tier]})
    pool = doc_pool(seed)
    out.append(dict(base, part="doc", pool=pool, k=1, fixed=[]))
    for i in range(len(pool)):
        out.append(dict(base, part="doc", pool=pool, k=2, fixed=[i]))
    for i in range(len(pool)):
        for j in range(len(pool)):
            out.append(dict(base, part="doc", pool=pool, k=3, fixed=[i, j]))
    if tier == "thorough":
        for i in range(len(pool)):
            for j in range(len(pool)):
                out.append(dict(base, part="doc", pool=pool, k=4, fixed=[i, j], masks=[0, 31]))
    # the same small documents, the text handed to Copyright(...) in every other documented way
    out.append(dict(base, part="doc", pool=pool, k=1, fixed=[], routes=["parse:" + k for k in DOC_KINDS], kinds=True))
    for i in range(len(pool)):
        out.append(dict(base, n=2, part="doc", pool=pool, k=2, fixed=[i], masks=[0, 2], routes=["parse:" + k for k in DOC_KINDS],
                        kinds=True))
    # ... and the other ways a document comes into being or is asked (DOC_ROUTES_NEW)
    out.append(dict(base, part="doc", pool=pool, k=1, fixed=[], routes=list(DOC_ROUTES_NEW), kinds=True))
    for i in range(len(pool)):
        out.append(dict(base, n=2, part="doc", pool=pool, k=2, fixed=[i], masks=[0, 2, 7], routes=list(DOC_ROUTES_NEW), kinds=True))
    # the other ways a pattern list is installed in ONE paragraph and asked (LIST_ROUTES)
    for i in range(0, len(LIST_ROUTES), 4):
        out.append(dict(base, part="listroutes", space="small-lists", routes=LIST_ROUTES[i:i + 4]))
    for p in short:
        out.append(dict(base, n=2, part="listroutes", space="pairs", first=p, routes=list(LIST_ROUTES_PAIRS)))
    # ... the lone dot as a pattern, along every list route (one of them puts every pattern on a line of its own)
    out.append(dict(base, part="listroutes", space="dot-patterns", routes=list(LIST_ROUTES), names=[".", "x", "", "..", "./a", "a."]))
    # ... patterns containing a newline, where the pattern list does not pass through a Files field
    out.append(dict(base, n=2, part="listroutes", space="newline-patterns",
                    routes=["globs_to_re-list", "globs_to_re-tuple", "globs_to_re-generator"]))
    # ... and lists long enough to be folded by whoever writes the field
    out.append(dict(base, part="listroutes", space="long-lists", routes=list(LONG_ROUTES), names=list(LONG_NAMES)))
    # ... with other runs of empty and white-space-only lines between the paragraphs
    for i in range(len(pool)):
        out.append(dict(base, n=2, part="doc", pool=pool, k=2, fixed=[i], masks=[0, 2, 7], routes=["parse:" + k for k in SEP_KINDS],
                        kinds=True))
    # ... and as bytes in which one line per Files paragraph is not UTF-8
    e = "\xe9"
    mpool = [["*"], [e + "*"], ["?"], ["*" + e, a], ["caf" + e + "/*"]]
    mna = [a, e, "/", "\n"]
    for i in range(len(mpool)):
        out.append(dict(base, na=mna, n=2, part="doc", pool=mpool, k=2, fixed=[i], masks=[0, 2],
                        routes=["parse:" + k for k in MIXED_KINDS], kinds=True))
    out += ladder_units(tier)
    return out


def unit_cost(u, tier):
    part = u["part"]
    if part == "ladder":
        return 3000000 if u["fam"] in ("ladder/files-paragraphs", "size/pattern") else 800000
    if part == "single":
        return (len(u["pa"]) ** (u["length"] - len(u["prefix"]))) * (7 ** u["n"]) * 3
    if part == "pairs":
        return 42 * (7 ** u["n"]) * 3
    if part == "triples":
        return 36 * (7 ** u["n"]) * 3
    if part == "sweep":
        return len(u["chars"]) * 6 * 7 * 2 * 30
    if part == "listroutes":
        return (78 if u["space"] == "small-lists" else 42) * len(u["routes"]) * (7 ** u["n"]) * 3
    if part == "hist-tree":
        return (9 ** u["depth"]) * 4
    if part == "hist-graph":
        return 1000
    if part == "dochist":
        return (15 ** u["depth"]) * 8
    return ((6 ** (u["k"] - len(u["fixed"]))) * len(u.get("masks") or range(2 ** (u["k"] + 1))) * len(u.get("routes") or "12")
            * (7 ** u["n"]) * 4)


# ------------------------------------------------------------------------------------------------ real side

_mod = []


def _copyright():
    if not _mod:
        from debian import copyright as C
        logging.getLogger("debian.copyright").addHandler(logging.NullHandler())
        _mod.append(C)
    return _mod[0]


def _exc(C, e):
    """Format errors are 'ERR'; anything else is named."""
    if isinstance(e, C.MachineReadableFormatError) and isinstance(e, ValueError):
        return "ERR"
    return ("raise", type(e).__name__)


def files_text(files):
    return "Files: %s\nCopyright: c\nLicense: l\n" % " ".join(files)


def build(files, route):
    """-> ('ok', FilesParagraph) | ('fail', 'ERR' | ('raise', cls))"""
    C = _copyright()
    try:
        if route == "create":
            return ("ok", C.FilesParagraph.create(list(files), "c", C.License("l")))
        if route == "data":
            # the paragraph is a view of a Deb822 object the caller keeps ("Subclasses may keep a reference to the data
            # before giving it to this class's constructor"); later edits go through that object
            from debian import deb822
            d = deb822.Deb822({"Files": " ".join(files), "Copyright": "c", "License": "l"})
            fp = C.FilesParagraph(d, strict=True)
            if len(_KEPT_DATA) > 8:
                _KEPT_DATA.clear()          # only the paragraphs of the history being replayed are ever edited
            _KEPT_DATA[id(fp)] = (fp, d)
            return ("ok", fp)
        doc = C.Copyright((HEADER + "\n" + files_text(files)).splitlines(True), strict=True)
        ps = list(doc.all_files_paragraphs())
        if len(ps) != 1:
            return ("fail", ("paragraphs", len(ps)))
        return ("ok", ps[0])
    except Exception as e:   # whatever the code under test raises is classified, not believed
        return ("fail", _exc(C, e))


def observe(fp, name):
    try:
        r = fp.matches(name)
    except Exception as e:
        return _exc(_copyright(), e)
    if r is True or r is False:
        return r
    return ("value", repr(r))


_KEPT_DATA = {}


def set_files(fp, files):
    C = _copyright()
    try:
        kept = _KEPT_DATA.get(id(fp))
        if kept is not None and kept[0] is fp:
            kept[1]["Files"] = " ".join(files)
        else:
            fp.files = list(files)
    except Exception as e:
        return _exc(C, e)
    return None


# ------------------------------------------------------------------------------------------------ oracle

def expected(files, name):
    v = glob.list_verdict(files, name)
    return "ERR" if v[0] == "error" else (v[0] == "match")


def judge_build(files, res):
    """Installing a list: must succeed, or reject an invalid list with a format error."""
    if res[0] == "ok":
        fp = res[1]
        try:
            back = fp.files
        except Exception as e:
            return ("files/readback-raises/" + type(e).__name__, tuple(files), repr(e))
        if tuple(back) != tuple(files):
            return ("files/readback", tuple(files), tuple(back))
        return None
    kinds = [glob.validity(p) for p in files]
    if res[1] == "ERR" and any(kinds):
        return None
    if res[1] == "ERR":
        return ("files/rejects-valid-list", "list %r accepted" % (files,), "format error")
    return ("files/install-fails/%s" % (res[1][1] if res[1][0] == "raise" else "shape"),
            "list %r accepted" % (files,), repr(res[1]))


def judge(files, name, got):
    """-> None | (sig, expected, observed) for one matches() observation."""
    v = glob.list_verdict(files, name)
    exp = "ERR" if v[0] == "error" else (v[0] == "match")
    if got == exp:
        return None
    what = "Files %r matches(%r)" % (" ".join(files), name)
    if isinstance(got, tuple):
        return ("matches/%s/%s" % (got[0], got[1] if got[0] == "raise" else "not-bool"),
                "%s -> %s" % (what, _show(exp)), "%s" % (got,))
    if exp == "ERR":
        sig = "matches/accepts-invalid/" + v[1]
    elif got == "ERR":
        sig = "matches/rejects-valid-pattern"
    elif exp is True:
        sig = "matches/false-negative/" + ("newline-in-name" if "\n" in name else
                                           "slash-in-name" if "/" in name else "other")
    else:
        idx = [i for i, p in enumerate(files) if glob.matches_prefix(p, name)]
        if not idx:
            sig = "matches/false-positive/other"
        elif idx == [len(files) - 1]:
            sig = "matches/false-positive/prefix-of-name/last-alternative"
        else:
            sig = "matches/false-positive/prefix-of-name/non-last-alternative"
    return (sig, "%s -> %s" % (what, _show(exp)), _show(got))


def _show(x):
    return "MachineReadableFormatError" if x == "ERR" else repr(x)


# ------------------------------------------------------------------------------------------------ parts 1+2

def run_list_case(case):
    """One (route, pattern list, name).  Shared by the explorer (on disagreement) and replay."""
    files, name, route = case["files"], case["name"], case["route"]
    res = build(files, route)
    j = judge_build(files, res)
    if j:
        return [j]
    if res[0] != "ok":
        return []
    before = case.get("before", 0)
    if before:
        # the explorer asks one paragraph object about many names: replay the queries that came first
        for nm in strings(case["na"], 0, case["n"])[:before]:
            observe(res[1], nm)
    j = judge(files, name, observe(res[1], name))
    if j and before:
        j = ("matches/history-dependent/" + j[0],) + tuple(j[1:])
    return [j] if j else []


def _kinds_key(files):
    ks = set()
    for p in files:
        ks |= glob.kinds(p)
    return "".join(sorted(ks))


def _explore_lists(part, u, lists, names, model_cache, selfcheck=False):
    """lists: iterable of pattern lists (canonical order).  model_cache: pattern -> (validity, set of names)."""
    for files in lists:
        part.states += 1
        part.transitions += 1
        infos = []
        for p in files:
            info = model_cache.get(p)
            if info is None:
                kind = glob.validity(p)
                if kind is None:
                    toks = glob.tokens(p)
                    ms = frozenset(nm for nm in names if glob.match_tokens(toks, nm))
                    if selfcheck:
                        ms2 = frozenset(nm for nm in names if glob.match_dp(p, nm))
                        if ms != ms2:
                            raise AssertionError("model self-check: backtracking and table matcher disagree on %r: %r"
                                                 % (p, sorted(ms ^ ms2)))
                        part.extra["model_selfcheck_pairs"] += len(names)
                else:
                    ms = frozenset()
                info = (kind, ms)
                model_cache[p] = info
            infos.append(info)
        invalid = [k for k, _ in infos if k]
        kk = _kinds_key(files)
        first = True
        for route in ROUTES:
            res = build(files, route)
            j = judge_build(files, res)
            part.evaluations += 1
            if j:
                part.violation(j[0], {"part": "list", "route": route, "files": list(files), "name": ""}, j[1], j[2])
                continue
            if res[0] != "ok":
                part.outcomes["rejected-when-installed"] += 1
                continue
            fp = res[1]
            for qi, nm in enumerate(names):
                got = observe(fp, nm)
                if invalid:
                    exp = "ERR"
                else:
                    exp = False
                    for _k, ms in infos:
                        if nm in ms:
                            exp = True
                            break
                part.traces += 1
                part.evaluations += 1
                if got != exp:
                    case = {"part": "list", "route": route, "files": list(files), "name": nm}
                    j = judge(files, nm, got)
                    if j is None:
                        raise AssertionError("table and judge() disagree on %r" % (case,))
                    sig = j[0]
                    hsig = "matches/history-dependent/" + sig
                    if part.viol_sigs[hsig] >= core.MAX_STORED_PER_SIG and part.viol_sigs[sig] == 0:
                        # only ever seen as history-dependent in this unit; the stored cases were verified by re-execution
                        sig = hsig
                    elif part.viol_sigs[sig] < core.MAX_STORED_PER_SIG or part.viol_sigs[hsig] < core.MAX_STORED_PER_SIG:
                        # the cases that get stored are re-executed from scratch, exactly as replay does
                        if [b[0] for b in run_list_case(case)] != [sig]:
                            # a fresh paragraph answers differently: the answer depends on the earlier queries
                            case = dict(case, na=u["na"], n=u["n"], before=qi)
                            sig = "matches/history-dependent/" + sig
                            if [b[0] for b in run_list_case(case)] != [sig]:
                                raise AssertionError("explorer and run_list_case disagree on %r" % (case,))
                    part.violation(sig, case, j[1], j[2])
                if first:
                    if exp is not False:
                        part.nontrivial += 1
                    part.outcomes[("error:" + invalid[0]) if invalid else
                                  ("%s[%s]x%d" % ("match" if exp else "nomatch", kk, len(files)))] += 1
            first = False
    return part


def run_unit(u, tier, seed):
    part = core.Part()
    kind = u["part"]
    if kind in ("single", "pairs", "triples"):
        pa, na, n = u["pa"], u["na"], u["n"]
        names = strings(na, 0, n)
        cache = {}
        if kind == "single":
            rest = u["length"] - len(u["prefix"])
            lists = [[u["prefix"] + "".join(t)] for t in itertools.product(pa, repeat=rest)]
            if u["length"] == 1:
                part.states += len(names) + 1          # the names and the empty pattern prefix
                part.transitions += len(names) - 1
            _explore_lists(part, u, lists, names, cache, selfcheck=True)
            part.max_depth = u["length"]
        elif kind == "pairs":
            short = strings(pa, 1, 2)
            lists = [[u["first"], q] for q in short]
            _explore_lists(part, u, lists, names, cache)
            part.max_depth = 2
        else:
            lists = [[u["first"], q, r] for q in pa for r in pa]
            _explore_lists(part, u, lists, names, cache)
            part.max_depth = 3
        part.sample({"part": "list", "route": "create", "files": lists[0], "name": names[len(names) // 2]})
        part.sample({"part": "list", "route": "parse", "files": lists[-1], "name": names[-1]})
        return part
    if kind == "sweep":
        return _sweep(part, u)
    if kind == "ladder":
        return _ladder_unit(part, u, seed, tier)
    if kind == "listroutes":
        return _listroutes(part, u)
    if kind == "hist-graph":
        return _hist_graph(part, u)
    if kind == "hist-tree":
        return _hist_tree(part, u)
    if kind == "dochist":
        return _dochist(part, u)
    return _docs(part, u)


# ------------------------------------------------------------------------------------------------ part 5

def run_doc_history(case):
    """lookups interleaved with edits on ONE Copyright object -> violations at the first wrong lookup"""
    C = _copyright()
    pool, names, route = case["pool"], case["names"], case["route"]
    lists = [list(pool[i]) for i in case["init"]]
    res = build_doc([("F", fl) for fl in lists], route)
    j = judge_doc_build(lists, res)
    if j:
        return [j]
    if res[0] != "ok":
        return []
    doc, paras = res[1], res[2]
    for op in case["history"]:
        if op[0] == "set":
            if op[1] >= len(paras):
                return []
            r = set_files(paras[op[1]], pool[op[2]])
            if r is not None:
                return [("files/set-fails", "files := %r accepted" % (pool[op[2]],), _show(r))]
            lists[op[1]] = list(pool[op[2]])
        elif op[0] == "add":
            try:
                fp = C.FilesParagraph.create(list(pool[op[1]]), "c", C.License("l"))
                doc.add_files_paragraph(fp)
            except Exception as e:
                return [("doc/add-files-paragraph-raises", "paragraph added", repr(_exc(C, e)))]
            paras = list(doc.all_files_paragraphs())
            lists.append(list(pool[op[1]]))
            if len(paras) != len(lists) or paras[-1] is not fp:
                return [("doc/add-files-paragraph/order", "new Files paragraph is the last Files paragraph", len(paras))]
        else:
            name = names[op[1]]
            got = observe_find(doc, paras, name)
            jj = judge_find(lists, name, got, paras)
            if jj:
                fresh = build_doc([("F", fl) for fl in lists], route)
                if fresh[0] == "ok" and judge_find(lists, name, observe_find(fresh[1], fresh[2], name), fresh[2]) is None:
                    return [("find/stale-after-history", jj[1] + " after %r" % (case["history"],), jj[2])]
                return [jj]
    return []


def _dochist(part, u):
    pool, names, depth = u["pool"], u["names"], u["depth"]
    ops = [("find", i) for i in range(len(names))]
    ops += [("set", k, i) for k in (0, 1) for i in range(len(pool))]
    ops += [("add", i) for i in range(len(pool))]
    part.max_depth = depth

    def rec(hist, nadd):
        for op in ops:
            if op[0] == "add" and nadd >= 1:
                continue
            h2 = hist + [op]
            if len(h2) == depth and op[0] != "find":
                continue                 # a history is observed by its last lookup
            case = {"part": "dochist", "route": u["route"], "pool": pool, "names": names, "init": u["init"],
                    "history": [list(o) for o in h2]}
            bad = run_doc_history(case)
            part.transitions += 1
            part.evaluations += 1
            for sig, e, o in bad:
                part.violation(sig, case, e, o, rank=len(h2))
            if bad:
                continue
            part.states += 1
            if len(h2) < depth:
                rec(h2, nadd + (op[0] == "add"))
            else:
                part.traces += 1
                if any(o[0] != "find" for o in h2):
                    part.nontrivial += 1
                part.outcomes["dochist:" + "".join(o[0][0] for o in h2)] += 1
    rec([], 0)
    part.sample({"part": "dochist", "route": u["route"], "pool": pool, "names": names, "init": u["init"],
                 "history": [["find", 0], ["set", 1, 3], ["find", 0]]})
    return part


# ------------------------------------------------------------------------------------------------ part 3

def run_history(case):
    """Replays one history on a fresh paragraph; -> (violations, model state, list_changed_between_matches).
    A failure on a route other than create / parse carries the route in its signature."""
    bad, st, changed = _run_history(case)
    if bad and case["route"] not in ROUTES:
        bad = [("via-%s/%s" % (case["route"], b[0]),) + tuple(b[1:]) for b in bad]
    return bad, st, changed


def _run_history(case):
    lists, names, route = case["lists"], case["names"], case["route"]
    cur = case["init"]
    res = build(lists[cur], route)
    j = judge_build(lists[cur], res)
    if j:
        return [j], None, False
    if res[0] != "ok":
        return [], None, False          # invalid list rejected when installed: nothing to explore behind it
    fp = res[1]
    compiled = None
    matched_with = None
    changed = False
    for op in case["history"]:
        if op[0] == "set":
            r = set_files(fp, lists[op[1]])
            if r is not None:
                if r == "ERR" and any(glob.validity(p) for p in lists[op[1]]):
                    return [], None, changed
                return [("files/set-fails", "files := %r accepted" % (lists[op[1]],), _show(r))], None, changed
            cur = op[1]
            try:
                back = tuple(fp.files)
            except Exception as e:
                back = repr(e)
            if back != tuple(lists[cur]):
                return [("files/readback", tuple(lists[cur]), back)], None, changed
        else:
            name = names[op[1]]
            got = observe(fp, name)
            if matched_with is not None and matched_with != cur:
                changed = True
            matched_with = cur
            j = judge(lists[cur], name, got)
            if j:
                # is it the history, or does a fresh paragraph with the same list say the same?
                fresh = build(lists[cur], route)
                if fresh[0] == "ok" and judge(lists[cur], name, observe(fresh[1], name)) is None:
                    stale = [i for i in range(len(lists)) if i != cur and expected(lists[i], name) == got]
                    sig = "cache/stale-pattern" if compiled in stale else "cache/history-dependent"
                    return [(sig, j[1] + " after %r" % (case["history"],), j[2])], None, changed
                return [j], None, changed
            if not any(glob.validity(p) for p in lists[cur]):
                compiled = cur
    return [], (cur, compiled), changed


def _hist_ops(u):
    return [("set", i) for i in range(len(u["lists"]))] + [("match", i) for i in range(len(u["names"]))]


def _hist_case(u, init, hist):
    return {"part": "hist", "route": u["route"], "lists": u["lists"], "names": u["names"], "init": init,
            "history": [list(op) for op in hist]}


def _hist_graph(part, u):
    ops = _hist_ops(u)
    seen = {}
    frontier = []
    for init in range(len(u["lists"])):
        bad, st, _ = run_history(_hist_case(u, init, []))
        for sig, e, o in bad:
            part.violation(sig, _hist_case(u, init, []), e, o)
        if st is not None and st not in seen:
            seen[st] = (init, [])
            frontier.append(st)
    depth = 0
    while frontier:
        nxt = []
        depth += 1
        for st in frontier:
            init, hist = seen[st]
            for op in ops:
                h2 = hist + [op]
                case = _hist_case(u, init, h2)
                bad, st2, _ = run_history(case)
                part.transitions += 1
                part.evaluations += 1
                for sig, e, o in bad:
                    part.violation(sig, case, e, o)
                if bad or st2 is None:
                    continue
                part.outcomes["graph:" + op[0]] += 1
                if st2 not in seen:
                    seen[st2] = (init, h2)
                    nxt.append(st2)
        frontier = nxt
    part.states += len(seen)
    part.max_depth = depth
    part.extra["hist_graph_states"] += len(seen)
    part.sample(_hist_case(u, 0, [ops[0], ops[-1]]))
    return part


def _hist_tree(part, u):
    ops = _hist_ops(u)
    depth = u["depth"]
    init = u["init"]
    part.max_depth = depth

    def rec(hist):
        for op in ops:
            h2 = hist + [op]
            case = _hist_case(u, init, h2)
            bad, st, changed = run_history(case)
            part.transitions += 1
            part.evaluations += 1
            for sig, e, o in bad:
                part.violation(sig, case, e, o)
            if bad or st is None:
                continue
            if len(h2) < depth:
                rec(h2)
            else:
                part.traces += 1
                if changed:
                    part.nontrivial += 1
                part.outcomes["tree:" + "".join(o[0][0] for o in h2)] += 1
    rec([])
    part.sample(_hist_case(u, init, [ops[-1], ops[(init + 1) % len(u["lists"])], ops[-1]][:depth]))
    return part


# ------------------------------------------------------------------------------------------------ part 4

LIC_TEXT = "License: l\n t\n"


def doc_layout(file_lists, mask):
    """-> list of ('F', files) / ('L',) in document order; bit i of mask = a License paragraph in gap i."""
    out = []
    for i, fl in enumerate(file_lists):
        if mask >> i & 1:
            out.append(("L",))
        out.append(("F", fl))
    if mask >> len(file_lists) & 1:
        out.append(("L",))
    return out


DOC_KINDS = ["lines-nonl", "tuple-lines", "generator", "generator-nonl", "StringIO", "textfile", "str", "bytes", "bytes-lines",
             "BytesIO", "bytes-lines-other-encoding", "BytesIO-other-encoding"]
OTHER_ENCODINGS = ["latin-1", "iso-8859-5", "euc-jp"]
# what stands between two paragraphs instead of one empty line (white-space-only lines separate as well)
SEPARATORS = {"two": "\n\n", "blank": " \n", "empty-blanks-empty": "\n  \n\n", "tab-empty": "\t\n\n",
              "empty-empty-blank": "\n\n \n", "three-blanks": " \n \n \n"}
SEP_KINDS = ["sep=%s%s" % (k, f) for k in SEPARATORS for f in ("", "/str")]
# a line in a legacy 8-bit encoding ahead of the Files field of the same paragraph, the rest UTF-8 (each line is decoded
# on its own; lib/debian/tests/test_deb822.py has such documents)
MIXED_KINDS = ["mixed-bytes-lines", "mixed-BytesIO"]
MIXED_LINE = "Comment: Sim\xf3n Garc\xeda\n".encode("latin-1")


# the other ways a document comes into being / is asked (see build_doc): layouts of the Files paragraph in the text,
# non-strict parsing, paragraphs made by the constructors, taken over from a parsed document, a deep copy of a document
DOC_TEXT_KINDS = {"files-multiline": "parse-multiline", "lowercase": "parse-lowercase", "files-last": "parse-files-last",
                  "nonstrict": "", "nonstrict-files-only": "parse-nonstrict-files-only", "nonstrict-junk": ""}
DOC_ROUTES_NEW = ["parse:" + k for k in DOC_TEXT_KINDS] + ["api:constructor", "api:tuple-files", "api:from-parsed", "api:deepcopy",
                                                            "api:find-keyword"]
JUNK_TEXT = "X-Neither-Files-Nor-License: 1\n"


class _FindKeyword(object):
    def __init__(self, doc):
        self.doc = doc

    def all_files_paragraphs(self):
        return self.doc.all_files_paragraphs()

    def find_files_paragraph(self, name):
        return self.doc.find_files_paragraph(filename=name)


def other_encoding(text):
    for enc in OTHER_ENCODINGS:
        try:
            text.encode(enc)
            return enc
        except UnicodeEncodeError:
            pass
    raise AssertionError("no 8-bit encoding for %r" % (text,))


def _generate(lines):
    for line in lines:
        yield line


def parse_doc(C, text, kind):
    """Copyright(...) of a document text handed over in the given way ('' = the list of lines with newlines)"""
    if kind == "":
        return C.Copyright(text.splitlines(True), strict=True)
    if kind == "lines-nonl":
        return C.Copyright(text.split("\n")[:-1], strict=True)
    if kind == "tuple-lines":
        return C.Copyright(tuple(text.splitlines(True)), strict=True)
    if kind == "generator":
        return C.Copyright(_generate(text.splitlines(True)), strict=True)
    if kind == "generator-nonl":
        return C.Copyright(_generate(text.split("\n")[:-1]), strict=True)
    if kind == "StringIO":
        return C.Copyright(io.StringIO(text), strict=True)
    if kind == "textfile":
        return C.Copyright(io.TextIOWrapper(io.BytesIO(text.encode("utf-8")), encoding="utf-8", newline=""), strict=True)
    if kind == "str":
        return C.Copyright(text, strict=True)
    if kind == "bytes":
        return C.Copyright(text.encode("utf-8"), encoding="utf-8", strict=True)
    if kind == "bytes-lines":
        return C.Copyright(text.encode("utf-8").splitlines(True), encoding="utf-8", strict=True)
    if kind == "BytesIO":
        return C.Copyright(io.BytesIO(text.encode("utf-8")), encoding="utf-8", strict=True)
    if kind == "bytes-lines-other-encoding":
        enc = other_encoding(text)
        return C.Copyright(text.encode(enc).splitlines(True), encoding=enc, strict=True)
    if kind == "BytesIO-other-encoding":
        enc = other_encoding(text)
        return C.Copyright(io.BytesIO(text.encode(enc)), enc, True)
    if kind.startswith("sep="):
        return C.Copyright(text if kind.endswith("/str") else text.splitlines(True), strict=True)
    if kind in DOC_TEXT_KINDS:
        return C.Copyright(text.splitlines(True), strict=not kind.startswith("nonstrict"))
    if kind in MIXED_KINDS:
        lines = []
        for line in text.encode("utf-8").splitlines(True):
            if line.startswith(b"Files:"):
                lines.append(MIXED_LINE)
            lines.append(line)
        with warnings.catch_warnings():
            warnings.simplefilter("ignore")
            return C.Copyright(lines if kind == "mixed-bytes-lines" else io.BytesIO(b"".join(lines)), strict=True)
    raise AssertionError(kind)


def _ksig(route, sig):
    """a failure that needs one input kind is a different bug: its signature says which kind"""
    kind = route.partition(":")[2]
    return "in-%s/%s" % (kind, sig) if kind else sig


def build_doc(layout, route):
    """-> ('ok', Copyright, [FilesParagraph...]) | ('fail', ...)"""
    C = _copyright()
    try:
        if route.startswith("parse"):
            kind = route.partition(":")[2]
            sep = SEPARATORS[kind[4:].partition("/")[0]] if kind.startswith("sep=") else "\n"
            if kind == "nonstrict-junk":
                sep = "\n" + JUNK_TEXT + "\n"      # a paragraph that is neither (skipped with a complaint when not strict)
            text = HEADER + "".join(sep + (_fields_text(p[1], DOC_TEXT_KINDS.get(kind, "")) if p[0] == "F" else LIC_TEXT) for p in layout)
            doc = parse_doc(C, text, kind)
        elif route == "api:from-parsed":
            src = C.Copyright((HEADER + "".join("\n" + (files_text(p[1]) if p[0] == "F" else LIC_TEXT) for p in layout)).splitlines(True),
                              strict=True)
            doc = C.Copyright()
            for q in list(src.all_paragraphs())[1:]:
                if isinstance(q, C.FilesParagraph):
                    doc.add_files_paragraph(q)
                else:
                    doc.add_license_paragraph(q)
        elif route in ("api:constructor", "api:tuple-files", "api:deepcopy", "api:find-keyword"):
            import copy
            from debian import deb822
            doc = C.Copyright()
            for p in layout:
                if p[0] == "F" and route == "api:constructor":
                    doc.add_files_paragraph(C.FilesParagraph(deb822.Deb822({"Files": " ".join(p[1]), "Copyright": "c", "License": "l"})))
                elif p[0] == "F":
                    doc.add_files_paragraph(C.FilesParagraph.create(tuple(p[1]) if route == "api:tuple-files" else list(p[1]), "c", C.License("l")))
                else:
                    doc.add_license_paragraph(C.LicenseParagraph.create(C.License("l", "t")))
            if route == "api:deepcopy":
                orig = doc
                try:
                    orig.find_files_paragraph(WARM_NAME)
                except ValueError:
                    pass
                doc = copy.deepcopy(orig)
                for q in orig.all_files_paragraphs():          # the original goes its own way afterwards
                    q.files = list(WARM_LIST)
                orig.find_files_paragraph(WARM_NAME)
            elif route == "api:find-keyword":
                doc = _FindKeyword(doc)
        else:
            doc = C.Copyright()
            for p in layout:
                if p[0] == "F":
                    doc.add_files_paragraph(C.FilesParagraph.create(list(p[1]), "c", C.License("l")))
                else:
                    doc.add_license_paragraph(C.LicenseParagraph.create(C.License("l", "t")))
        return ("ok", doc, list(doc.all_files_paragraphs()))
    except Exception as e:
        return ("fail", _exc(C, e))


def observe_find(doc, paras, name):
    try:
        r = doc.find_files_paragraph(name)
    except Exception as e:
        return _exc(_copyright(), e)
    if r is None:
        return None
    for i, p in enumerate(paras):
        if p is r:
            return i
    return ("value", "not a Files paragraph of the document")


def find_answers(verdicts):
    """verdicts: per Files paragraph 'ERR'/True/False -> the set of acceptable answers."""
    fwd = None
    for i, v in enumerate(verdicts):
        if v == "ERR":
            fwd = "ERR"
            break
        if v:
            fwd = i
    rev = None
    for i in range(len(verdicts) - 1, -1, -1):
        if verdicts[i] == "ERR":
            rev = "ERR"
            break
        if verdicts[i]:
            rev = i
            break
    return (fwd, rev)


def judge_doc_build(file_lists, res):
    if res[0] == "ok":
        got = [tuple(p.files) for p in res[2]]
        want = [tuple(fl) for fl in file_lists]
        if got != want:
            return ("doc/files-paragraphs", want, got)
        return None
    if res[1] == "ERR" and any(glob.validity(p) for fl in file_lists for p in fl):
        return None
    return ("doc/build-fails", "document accepted", repr(res[1]))


def judge_find(file_lists, name, got, paras):
    verdicts = [expected(fl, name) for fl in file_lists]
    ok = find_answers(verdicts)
    if got in ok:
        return None
    what = "find_files_paragraph(%r) over Files %r" % (name, [" ".join(fl) for fl in file_lists])
    exp = "paragraph #%s" % (ok[0],) if ok[0] not in ("ERR", None) else _show(ok[0])
    # does the answer follow from the paragraphs' own matches()?  then the fault is in matches(), not in the search
    own = [observe(p, name) for p in paras]
    own_answers = find_answers([o if o in (True, False, "ERR") else "ERR" for o in own])
    if got in own_answers:
        for fl, o in zip(file_lists, own):
            j = judge(fl, name, o)
            if j:
                return (j[0], what + " -> " + exp + "; " + j[1], "%s; %s" % (_showidx(got), j[2]))
    if isinstance(got, tuple):
        sig = "find/%s/%s" % (got[0], got[1] if got[0] == "raise" else "foreign-object")
    elif got == "ERR":
        sig = "find/format-error-on-valid-document"
    elif got is None:
        sig = "find/none-despite-match" if "ERR" not in ok else "find/invalid-pattern-unreported"
    elif verdicts[got] is not True:
        sig = "find/returns-non-matching-paragraph"
    elif got == [i for i, v in enumerate(verdicts) if v is True][0]:
        sig = "find/first-match-instead-of-last"
    else:
        sig = "find/not-the-last-match"
    return (sig, what + " -> " + exp, _showidx(got))


def _showidx(got):
    return "paragraph #%d" % got if isinstance(got, int) and not isinstance(got, bool) else _show(got)


def run_doc_case(case):
    return [(_ksig(case["route"], b[0]),) + tuple(b[1:]) for b in _run_doc_case(case)]


def _run_doc_case(case):
    file_lists = [p[1] for p in case["layout"] if p[0] == "F"]
    res = build_doc([tuple(p) for p in case["layout"]], case["route"])
    j = judge_doc_build(file_lists, res)
    if j:
        return [j]
    if res[0] != "ok":
        return []
    before = case.get("before", 0)
    if before:
        # the explorer asks one document object about many names: replay the queries that came first
        for nm in strings(case["na"], 0, case["n"])[:before]:
            observe_find(res[1], res[2], nm)
    j = judge_find(file_lists, case["name"], observe_find(res[1], res[2], case["name"]), res[2])
    if j and before:
        j = ("find/history-dependent/" + j[0],) + tuple(j[1:])
    return [j] if j else []


def _docs(part, u):
    pool, k, fixed = u["pool"], u["k"], u["fixed"]
    names = strings(u["na"], 0, u["n"])
    table = [dict((nm, expected(fl, nm)) for nm in names) for fl in pool]
    last_case = None
    for rest in itertools.product(range(len(pool)), repeat=k - len(fixed)):
        idxs = list(fixed) + list(rest)
        file_lists = [pool[i] for i in idxs]
        per_name = []
        for nm in names:
            verdicts = [table[i][nm] for i in idxs]
            hits = [i for i, v in enumerate(verdicts) if v is True]
            cls = ("doc:error" if "ERR" in verdicts else "doc:none" if not hits else
                   "doc:unique-match" if len(hits) == 1 else "doc:several-matches")
            per_name.append((nm, find_answers(verdicts), cls))
        for mask in (u.get("masks") or range(1 << (k + 1))):
            layout = doc_layout(file_lists, mask)
            part.states += 1
            part.transitions += len(layout)
            for route in (u.get("routes") or ("parse", "api")):
                res = build_doc(layout, route)
                base = {"part": "doc", "route": route, "layout": [list(p) for p in layout]}
                j = judge_doc_build(file_lists, res)
                part.evaluations += 1
                if u.get("kinds"):
                    part.extra["documents read as " + route.partition(":")[2]] += 1
                if j:
                    part.violation(_ksig(route, j[0]), dict(base, name=""), j[1], j[2])
                    continue
                if res[0] != "ok":
                    part.outcomes["doc:rejected-when-built"] += 1
                    continue
                doc, paras = res[1], res[2]
                for qi, (nm, ok, cls) in enumerate(per_name):
                    got = observe_find(doc, paras, nm)
                    part.traces += 1
                    part.evaluations += 1
                    if got not in ok:
                        case = dict(base, name=nm)
                        j = judge_find(file_lists, nm, got, paras)
                        if j is None:
                            raise AssertionError("table and judge_find() disagree on %r" % (case,))
                        sig = j[0]
                        hsig = "find/history-dependent/" + sig
                        if part.viol_sigs[_ksig(route, hsig)] >= core.MAX_STORED_PER_SIG and part.viol_sigs[_ksig(route, sig)] == 0:
                            # only ever seen as history-dependent in this unit; the stored cases were verified by re-execution
                            sig = hsig
                        elif (part.viol_sigs[_ksig(route, sig)] < core.MAX_STORED_PER_SIG
                              or part.viol_sigs[_ksig(route, hsig)] < core.MAX_STORED_PER_SIG):
                            if [b[0] for b in _run_doc_case(case)] != [sig]:
                                # a fresh document answers differently: the answer depends on the earlier queries
                                case = dict(base, name=nm, na=u["na"], n=u["n"], before=qi)
                                sig = "find/history-dependent/" + sig
                                if [b[0] for b in _run_doc_case(case)] != [sig]:
                                    raise AssertionError("explorer and run_doc_case disagree on %r" % (case,))
                        part.violation(_ksig(route, sig), case, j[1], j[2])
                    if route == "parse" or route == (u.get("routes") or [None])[0]:
                        part.outcomes[cls] += 1
                        if mask == 0 and cls == "doc:several-matches":
                            part.nontrivial += 1
                last_case = dict(base, name=names[-1])
    part.max_depth = k
    if last_case:
        part.sample(last_case)
    return part


# ------------------------------------------------------------------------------------------------ replay

def replay(case):
    part = case.get("part")
    if part == "ladder":
        return run_ladder_case(case)
    if part == "list":
        return run_list_case(case)
    if part == "listroute":
        return run_listroute_case(case)
    if part == "hist":
        return run_history(case)[0]
    if part == "doc":
        return run_doc_case(case)
    if part == "dochist":
        return run_doc_history(case)
    raise ValueError("unknown case %r" % (case,))


def repro_py(case):
    if case.get("part") == "list":
        return ("from debian import copyright as C\n"
                "from mc.models import glob\n"
                "files, name = %r, %r\n"
                "fp = C.FilesParagraph.create(files, 'c', C.License('l'))\n"
                "try: want = any([glob.match(p, name) for p in files])\n"
                "except glob.GlobError: want = 'error'\n"
                "try: got = fp.matches(name)\n"
                "except C.MachineReadableFormatError: got = 'error'\n"
                "assert got == want, (files, name, got, want)\n" % (case["files"], case["name"]))
    return ("from mc.props import c16\ncase = %r\nassert c16.replay(case) == [], c16.replay(case)\n" % (case,))
