"""C10 - structural edits of a preserved document only move or insert whole elements (Engine A)."""
from .. import core
from . import _doc
from .c05 import strip_final_newline

ID = "C10"
LEVEL = "model_checking"
RULE = ("documents generated from segments with unique and with duplicated field names (A B A C A), comments attached "
        "to fields, free comments, every kind of last line, final newline present or absent; states = distinct model "
        "documents reached, transitions = one structural operation (order_first/last/before/after with indexed and "
        "unindexed keys, sort_fields, indexed/unindexed set and delete, insert/append of a new paragraph) applied to "
        "model and implementation; traces = complete histories replayed in tree mode; non-trivial = states other than "
        "the initial document.  Route units: operations whose keys are field-name tokens / (name, 0) / negative indices / other "
        "spellings, sort_fields(key=...), replacement and deletion through the other public entry points, paragraphs built by "
        "from_dict / from_kvpairs; origin units: the file object obtained from another kind of input; deep units: all "
        "histories over a 7-operation alphabet to depth 5; ladder units: generated documents with 1..40, 63..1001 (thorough: "
        "5000) fields / occurrences / paragraphs / continuation lines / comment lines / blank lines and values of 997..65537 "
        "(thorough: 262145) characters, one operation each")
BUDGET = {"quick": 240, "thorough": 3000}
NL = "any"


def bounds(tier):
    return {"documents": len(docs(0)), "tree_depth": 2 if tier == "quick" else 3,
            "graph_depth": 3 if tier == "quick" else 4,
            "graph_alphabet": "moves with unindexed keys and index 0/last, sort, append, insert(0)",
            "routes": "depth 1 on every document (and depth 2, before and after every operation of the small alphabet, on %d "
                      "documents): moves whose field or reference is named by its field-name token, by (name, 0) where the name "
                      "is unique, by a negative index, by another spelling; sort_fields(key=f) for f in %s; indexed and "
                      "unindexed replacement / deletion through %s / %s and clear(); new paragraphs built by from_dict() and by "
                      "from_kvpairs() (also with a repeated name) inserted at every index; after every such step every way of "
                      "reading the paragraphs and of dumping is compared with the model"
                      % (len(route_docs2(0)), sorted(k for k in _doc.SORT_KEYS if k != "default"),
                         ", ".join(_doc.SET_HOWS[1:]), ", ".join(h for h in _doc.DEL_HOWS[1:] if h != "popitem")),
            "deep": "deep-narrow histories (signatures deep/<document>/...): every history of exactly the operations %s on %s, "
                    "to depth %s, every step judged by the model, the re-parse of a dump seen before in the unit re-used"
                    % ("sort, add Zz, add Zy, delete first, delete last, first->last, last->first"
                       + ("" if tier == "quick" else " (on 'unique' also: refused delete, add Aa, add Dd, delete middle, first after last, append paragraph)"),
                       ", ".join(n for n, _d in deep_docs(0)),
                       ", ".join("%s: %d" % (n, deep_plan(n, tier)[0]) for n, _d in deep_docs(0))),
            "count_ladders": "one generated document per count n (signatures ladder/<kind>/...) for the kinds %s (see "
                             "_doc.ladder_spec), n in 1..40, %s%s; both terminations of the last line for n <= %d, alternating "
                             "above; depth 1 with the operations addressing first / middle / last element (n <= 12: %d-%d "
                             "operations, n <= 40: a reduced set, above: one operation of each kind - sort, move, delete, "
                             "add, bulk move / replace / delete of a repeated name, insert in the middle, append); "
                             "dups-mixed stops at 257 in the quick tier (1000, 1001 thorough)"
                             % (", ".join(LADDER_KINDS), _doc.LADDER_NS["mid"],
                                " and 1000, 1001 (999, 1025, 2500, 2501, 5000: thorough tier only - a case with 1000 paragraphs "
                                "takes 0.2 s)" if tier == "quick" else ", %s and %s (5000 only for lines, comments, gap, trailing: 2 s per case otherwise)" % (_doc.LADDER_NS["big"], _doc.LADDER_NS["huge"]),
                                12 if tier == "quick" else 40, 14, 40),
            "size_ladders": "a field whose value is (or whose second line is) one line of L characters, L in %s, content %s with "
                            "the special characters just before / at / across every multiple of 4096 (signatures size/<content>/...), "
                            "moved, deleted, sorted, with paragraphs inserted around it" % (size_ls(tier), ", ".join(SIZE_CONTENTS)),
            "origins": "the file object obtained from %s instead of a list of str lines: the small alphabet at depth 1 "
                       "(depth 2 in the thorough tier) on every document ('built': the full alphabet at depth 1 and the small one at depth 2 - thorough: "
                       "the full one at depth 2 - on the documents that construction can produce)" % ", ".join(_doc.ORIGINS[1:])}


def assumptions():
    return ["a missing newline at the very end of the document may be supplied by any operation",
            "a deleted field's own comment lines may go or stay", "a new paragraph is separated by 1-2 blank lines and "
            "may land on either side of free comments in the gap (docstring of insert)",
            "out-of-range indices, absent keys and self-relative moves are outside the statement",
            "sort order = stable sort on the lower-cased name (on key(name) when a key function is given)",
            "routes: (name, -k) counts the occurrences of a repeated name from the last one (the library's own error message "
            "documents -1); for a name that occurs once only (name, 0) is used (a paragraph without repeated names refuses any "
            "other index)",
            "routes: a paragraph taken out of another parsed file cannot be inserted (refused by design: it already has a "
            "parent) and is not enumerated",
            "origins: 'built' starts from paragraphs made with from_dict() appended to new_empty_file(); it is used for the "
            "documents whose text is exactly what that construction dumps",
            "deep / ladder families: the format-preserving elements offer no copy operation (copy / deepcopy are not part of "
            "their public surface), so histories alternate between operations on one object only; the ladders stop at 5000 "
            "elements and 262145 characters; in the deep families the re-parse of a dump text is evaluated once per unit and "
            "text (a parse is a function of its text; the other families re-parse every time)"]


def docs(seed):
    v = core.rep(seed, ["1", "q", "1.0", "é"])
    F = lambda n, val, lay=0: [(n, "", "%s: %s\n" % (n, val)), (n, "", "%s:%s\n" % (n, val)),
                               (n, "#cm %s\n" % val, "%s: %s\n" % (n, val)),
                               (n, "", "%s: %s\n more\n" % (n, val)),
                               (n, "", "%s: %s\n#in\n more\n" % (n, val))][lay]
    out = []
    out.append([("par", [F("A", v)])])
    out.append([("par", [F("A", v), F("B", "2", 1), F("C", "3", 2)])])
    out.append([("par", [F("C", v, 3), F("b", "2", 2), F("A", "3")])])
    out.append([("par", [F("A", v), F("B", "2"), F("A", "3", 3), F("C", "4"), F("A", "5", 2)])])
    out.append([("par", [F("A", v, 2), F("a", "2"), F("B", "3", 4), F("B", "4")])])
    out.append([("par", [F("A", v), F("B", "2")]), ("raw", "\n"), ("par", [F("C", "3"), F("A", "4", 3)])])
    out.append([("par", [F("A", v), F("A", "2")]), ("raw", "\n#free\n\n"), ("par", [F("C", "3")])])
    out.append([("raw", "#top\n\n"), ("par", [F("A", v), F("B", "2")]), ("raw", "\n\n"), ("par", [F("C", "3")])])
    res = []
    for d in out:
        res.append(d)
        res.append(strip_final_newline(d))
    # every kind of last line, with and without its newline
    for tail in ("#end\n", "  \n", "\n#end\n", "\n", "\n\n"):
        for base in ([F("A", v), F("B", "2")], [F("A", v), F("B", "2"), F("A", "3")]):
            d = [("par", base), ("raw", tail)]
            res.append(d)
            if tail not in ("\n", "\n\n"):
                res.append(strip_final_newline(d))
    return res


NEWPARS = [(("X", "y"),), (("X", "y\n z"), ("Y", "w"))]


def _keys(par, indexed):
    names = []
    for f in par:
        if f.name.lower() not in [n.lower() for n in names]:
            names.append(f.name)
    keys = []
    for n in names:
        keys.append(n)
        c = len(_doc.occ(par, n))
        if c > 1 and indexed:
            idxs = range(c) if indexed == "all" else sorted({0, c - 1})
            keys += [(n, i) for i in idxs]
    return keys


def ops_full(doc):
    ops = []
    ps = _doc.pars(doc)
    for pi, par in enumerate(ps):
        keys = _keys(par, "all")
        for k in keys:
            ops.append(("first", pi, k))
            ops.append(("last", pi, k))
            for r in keys:
                ops.append(("before", pi, k, r))
                ops.append(("after", pi, k, r))
            ops.append(("set", pi, k, "z"))
            ops.append(("del", pi, k))
        if keys and isinstance(keys[0], str):
            ops.append(("set", pi, keys[0].swapcase(), "z\n zz"))
            ops.append(("first", pi, keys[-1].swapcase() if isinstance(keys[-1], str) else keys[-1]))
        ops.append(("sort", pi))
        if not _doc.occ(par, "N"):
            ops.append(("set", pi, "N", "n"))
        # to be refused, leaving the document as it was
        k0 = keys[0] if keys else "A"
        ops.append(("before", pi, k0, "Zz-absent"))
        ops.append(("after", pi, k0, "Zz-absent"))
        ops.append(("first", pi, "Zz-absent"))
        ops.append(("before", pi, "Zz-absent", k0))
        ops.append(("del", pi, "Zz-absent"))
        ops.append(("after", pi, k0, k0))
    for i in range(len(ps) + 1):
        ops.append(("insert", i, NEWPARS[0]))
    ops.append(("insert", 0, NEWPARS[1]))
    ops.append(("append", NEWPARS[0]))
    ops.append(("append", NEWPARS[1]))
    return ops


def ops_small(doc):
    ops = []
    ps = _doc.pars(doc)
    for pi, par in enumerate(ps):
        keys = _keys(par, "ends")
        for k in keys:
            ops.append(("first", pi, k))
            ops.append(("last", pi, k))
        names = [k for k in keys if isinstance(k, str)]
        for k in names:
            for r in names:
                ops.append(("before", pi, k, r))
                ops.append(("after", pi, k, r))
        ops.append(("sort", pi))
        if keys:
            ops.append(("del", pi, keys[-1]))
        else:
            ops.append(("set", pi, "N", "n"))
    ops.append(("insert", 0, NEWPARS[0]))
    ops.append(("append", NEWPARS[0]))
    return ops


def _alt_keys(par, k):
    """other legitimate spellings of the key k (a name or (name, i)) that denote the same field(s)"""
    if isinstance(k, str):
        c = len(_doc.occ(par, k))
        if c != 1:
            return []
        return [(k, 0), ("tok", k, 0), k.swapcase(), (k.swapcase(), 0)]
    n, i = k
    c = len(_doc.occ(par, n))
    return [("tok", n, i), (n, i - c), (n.swapcase(), i)]


def ops_routes(doc, small=False):
    ops = []
    ps = _doc.pars(doc)
    set_hows = ("raw", "view-raw") if small else _doc.SET_HOWS[1:]
    del_hows = ("pop",) if small else _doc.DEL_HOWS[1:]
    sort_keys = ("case-sensitive",) if small else sorted(k for k in _doc.SORT_KEYS if k != "default")
    for pi, par in enumerate(ps):
        keys = _keys(par, "ends" if small else "all")
        for k in keys:
            for a in _alt_keys(par, k)[1 if small and isinstance(k, str) else 0:2 if small else None]:
                ops.append(("first", pi, a))
                ops.append(("last", pi, a))
                for r in keys:
                    if small and not isinstance(r, str):
                        continue
                    ops.append(("before", pi, a, r))
                    ops.append(("after", pi, a, r))
                    for ra in ([] if small else _alt_keys(par, r)[:2]):
                        ops.append(("before", pi, k, ra))
                        ops.append(("after", pi, a, ra))
                if not small:
                    ops.append(("set", pi, a, "z"))
                    ops.append(("del", pi, a))
            for how in set_hows:
                for val in (("z",) if small else ("z", "z\n zz")):
                    ops.append(("set", pi, k, val, how))
            for how in del_hows:
                ops.append(("del", pi, k, how))
        for kn in sort_keys:
            ops.append(("sort", pi, kn))
        if par and not small:
            ops.append(("clear", pi))
            k0 = keys[0]
            for how in ("update", "raw", "view-raw", "view-opts"):
                ops.append(("set", pi, k0, _doc.INVALID_VALUES[0], how))
                if not _doc.occ(par, "N"):
                    ops.append(("set", pi, "N", "n", how))
            for how in ("pop", "remove", "view"):
                ops.append(("del", pi, "Zz-absent", how))
            ops.append(("first", pi, ("Zz-absent", 0)))
            ops.append(("after", pi, k0, ("tok", k0, 0) if isinstance(k0, str) else ("tok",) + tuple(k0)))
    for how in ("from_dict", "from_kvpairs"):
        for i in range(len(ps) + 1):
            if small and 0 < i < len(ps):
                continue
            ops.append(("insert", i, (("@", how),) + NEWPARS[1]))
        ops.append(("append", (("@", how),) + NEWPARS[1]))
    ops.append(("append", (("@", "from_kvpairs"),) + NEWPAR_DUP))
    ops.append(("insert", 0, (("@", "from_kvpairs"),) + NEWPAR_DUP))
    return ops


NEWPAR_DUP = (("X", "y"), ("Y", "w\n ww"), ("X", "z"))


def ops_routes_small(doc):
    return ops_routes(doc, small=True)


def route_docs2(seed):
    ds = docs(seed)
    return [ds[2], ds[9], ds[12]]


def large_docs(seed):
    """more fields, more occurrences, longer values than the depth-2 documents (explored to depth 1, thorough 2)"""
    long_v = "x" * 120
    F = lambda n, val: (n, "", "%s: %s\n" % (n, val))
    M = lambda n, k: (n, "# about %s\n# second comment line\n" % n, "%s: first\n" % n + "".join(" line %d %s\n" % (i, "y" * 30) for i in range(k)))
    names = ["Source", "Section", "Priority", "Maintainer", "Uploaders", "Build-Depends", "Standards-Version", "Homepage"]
    d1 = [("par", [F(names[0], "a"), F(names[1], long_v), M(names[2], 5), F(names[3], "m"), M(names[4], 2),
                   F(names[5], "b"), F(names[6], "4.6"), F(names[7], "h")])]
    d2 = [("par", [F("A", "1"), F("B", "2"), F("A", "3"), M("A", 3), F("C", "4"), F("A", "5"), F("B", "6"), F("A", long_v)])]
    return [d1, strip_final_newline(d1), d2, strip_final_newline(d2)]


def units(tier, seed):
    out = [{"doc": d, "i": i} for i, d in enumerate(docs(seed))]
    out += [{"doc": d, "i": 1000 + i, "large": True} for i, d in enumerate(large_docs(seed))]
    out += [{"routes": d, "i": 3000 + i} for i, d in enumerate(docs(seed))]
    out += [{"routes2": d, "i": 4000 + i, "first": first} for i, d in enumerate(route_docs2(seed))
            for first in ("route", "default")]
    out += [{"origin": o, "docs": docs(seed), "i": 5000 + n} for n, o in enumerate(_doc.ORIGINS[1:])]
    out += scale_units(tier, seed)
    return out


def unit_cost(u, tier):
    if "deep" in u:
        return 400
    if "ladders" in u:
        return 30 + sum(d["n"] for d in u["ladders"]) // 20
    if "origin" in u:
        return 60
    n = sum(len(it[1]) for it in u.get("doc", u.get("routes", u.get("routes2"))) if it[0] == "par") ** 3
    return n * 4 if "routes2" in u else n // 2 if "routes" in u else n


def run_unit(u, tier, seed):
    part = core.Part()
    if "deep" in u or "ladders" in u:
        return run_scale(part, u, tier, seed)
    if "routes" in u:
        base = {"doc": u["routes"], "route": {"wide": True}}
        _doc.explore(part, u["routes"], ops_routes, 1, 0, NL, base)
        return part
    if "routes2" in u:
        base = {"doc": u["routes2"], "route": {"wide": True}}
        # (thorough: every route operation instead of the reduced set, still two levels)
        r = ops_routes_small if tier == "quick" else ops_routes
        if u["first"] == "route":
            _doc.explore(part, u["routes2"], r, 2, 0, NL, base, ops2_fn=ops_small)
        else:
            _doc.explore(part, u["routes2"], ops_small, 2, 0, NL, base, ops2_fn=r)
        return part
    if "origin" in u:
        for d in u["docs"]:
            base = {"doc": d, "route": {"origin": u["origin"], "wide": True}}
            if u["origin"] == "built":
                if built_text(d):
                    # (few documents can be built this way: the full alphabet, one level deeper)
                    if tier == "quick":
                        _doc.explore(part, d, ops_full, 1, 0, NL, base)
                        _doc.explore(part, d, ops_small, 2, 0, NL, base)
                    else:
                        _doc.explore(part, d, ops_full, 2, 0, NL, base)
                continue
            _doc.explore(part, d, ops_small, 1 if tier == "quick" else 2, 0, NL, base)
        return part
    td, gd = (2, 3) if tier == "quick" else (3, 4)
    nf = sum(len(it[1]) for it in u["doc"] if it[0] == "par")
    if nf >= 5 and tier == "quick":
        gd = 2
    base = {"doc": u["doc"]}
    if u.get("large"):
        td, gd = (1, 0) if tier == "quick" else (2, 0)
    _doc.explore(part, u["doc"], ops_full, td, gd, NL, base, ops_small)
    ops = [o for o in ops_full(_doc.from_spec(u["doc"])) if _doc.enabled(_doc.from_spec(u["doc"]), o)]
    part.sample(dict(base, history=[ops[len(ops) // 2]]))
    return part


def built_text(spec):
    """is the document exactly what from_dict() paragraphs appended to an empty file dump (unique names, `Name: value`
    lines, one blank line between paragraphs, nothing else)?"""
    doc = _doc.from_spec(spec)
    for j, it in enumerate(doc):
        if it[0] == "raw":
            if it[1] != "\n" or j == 0 or j == len(doc) - 1 or doc[j - 1][0] != "par" or doc[j + 1][0] != "par":
                return False
        else:
            names = [f.name.lower() for f in it[1]]
            if len(set(names)) != len(names):
                return False
            for f in it[1]:
                if f.comment or f.body != "%s:%s" % (f.name, _doc.raw_value(_doc.read_value(f.body))) or "#" in f.body:
                    return False
    return _doc.render(doc).endswith("\n")


def replay(case):
    hist = []
    for op in case["history"]:
        op = list(op)
        if op[0] in ("insert", "append"):
            op[-1] = tuple(tuple(x) for x in op[-1])
        else:
            for i in (2, 3):
                if i < len(op) and isinstance(op[i], list):
                    op[i] = tuple(op[i])
        hist.append(tuple(op))
    _d, bad = _doc.run_history(_doc.case_spec(case), hist, NL, case.get("route"))
    return bad


# ---------------------------------------------------------------- beyond the small scope

DEEP_SLICES = 8


def deep_docs(seed):
    """six fields in an order that is not the sorted one (one with a comment, one with a continuation line), with and
    without the final newline; a repeated name three times among others"""
    v = core.rep(seed, ["1", "q", "1.0", "\u00e9"])
    F = lambda n, val, c="": (n, c, "%s: %s\n" % (n, val))
    d1 = [("par", [F("M", v), F("C", "2", "#cm\n"), F("X", "3"), ("E", "", "E: 4\n more\n"), F("R", "5"), F("G", "6")])]
    d2 = [("par", [F("A", v), F("B", "2"), F("A", "3"), F("C", "4"), F("A", "5"), F("B", "6")])]
    return [("unique", d1), ("unique-open", _doc.open_tail(d1)), ("repeated", d2)]


def _poskey(par, idx):
    """the key that denotes exactly the field at position idx"""
    o = _doc.occ(par, par[idx].name)
    return par[idx].name if len(o) == 1 else (par[idx].name, o.index(idx))


def ops_deep(doc, wide=False):
    """the deep-narrow alphabet: sort; add a name that sorts last / one that sorts directly before that one (again: replace it);
    delete the first / the last field; move the first field last / the last one first.
    wide adds: a refused deletion, a name that sorts first, one that sorts in the middle, delete the middle field, append a paragraph, first field after the last"""
    par = _doc.pars(doc)[0]
    n = len(par)
    ops = [("sort", 0), ("set", 0, "Zz", "z%d" % n), ("set", 0, "Zy", "y%d" % n)]
    if par:
        first, last = _poskey(par, 0), _poskey(par, n - 1)
        ops += [("del", 0, first), ("del", 0, last), ("last", 0, first), ("first", 0, last)]
    if wide:
        ops.append(("del", 0, "Zz-absent"))
        ops.append(("set", 0, "Aa", "a%d" % n))
        ops.append(("set", 0, "Dd", "d%d" % n))
        if n > 2:
            ops.append(("del", 0, _poskey(par, n // 2)))
            ops.append(("after", 0, _poskey(par, 0), _poskey(par, n - 1)))
        ops.append(("append", NEWPARS[0]))
    out = []
    for op in ops:
        if op not in out:
            out.append(op)
    return out


def ops_deep_wide(doc):
    return ops_deep(doc, wide=True)


def ops_ladder(doc, reduced=False, minimal=False):
    """single structural operations that address the first, the middle and the last element of whatever there are many
    of (reduced: fewer of them; minimal: one of each kind)"""
    ops = []
    ps = _doc.pars(doc)
    reduced = reduced or minimal
    pis = sorted({0, len(ps) - 1}) if minimal else sorted({0, len(ps) // 2, len(ps) - 1})
    for pi in pis:
        par = ps[pi]
        n = len(par)
        ops.append(("sort", pi))
        if not n:
            continue
        f, m, l = _poskey(par, 0), _poskey(par, n // 2), _poskey(par, n - 1)
        ops += [("first", pi, l), ("del", pi, m), ("set", pi, "N", "n")]
        if not minimal:
            ops.append(("last", pi, f))
        if not reduced:
            ops += [("before", pi, l, f), ("after", pi, f, l), ("first", pi, m), ("after", pi, m, l), ("set", pi, m, "z"),
                    ("del", pi, l), ("set", pi, l, "z\n zz")]
        names = []
        for fld in par:
            if fld.name.lower() not in [x.lower() for x in names]:
                names.append(fld.name)
        for name in names:
            c = len(_doc.occ(par, name))
            if c < 2:
                continue
            other = [x for x in names if x != name]
            ops += [("first", pi, name), ("set", pi, name, "z"), ("del", pi, (name, c // 2)), ("del", pi, name)]
            if not minimal:
                ops += [("last", pi, name), ("last", pi, (name, 0))]
            if not reduced:
                ops += [("first", pi, (name, c - 1)), ("set", pi, (name, c - 1), "z"), ("del", pi, name),
                        ("before", pi, (name, c - 1), (name, 0)), ("set", pi, (name, c // 2), "z")]
                if other:
                    ops += [("after", pi, name, other[-1]), ("before", pi, other[0], name), ("after", pi, other[0], name)]
    for i in ([(len(ps) + 1) // 2] if minimal else sorted({0, len(ps) // 2, len(ps)})):
        ops.append(("insert", i, NEWPARS[0]))
    ops.append(("append", NEWPARS[1]))
    out = []
    for op in ops:
        if op not in out:
            out.append(op)
    return out


def ops_ladder_reduced(doc):
    return ops_ladder(doc, reduced=True)


def ops_ladder_minimal(doc):
    return ops_ladder(doc, minimal=True)


LADDER_KINDS = ("fields", "dups", "dups-mixed", "paragraphs", "lines", "comments", "gap", "gap-comments", "trailing")
SIZE_CONTENTS = ("plain", "blank", "colon", "multibyte", "hash", "tab")


def ladder_ns(kind, tier):
    ns = _doc.LADDER_NS["small"] + _doc.LADDER_NS["mid"]
    if kind == "dups-mixed":
        return ns + ([1000, 1001] if tier != "quick" else [])
    if tier == "quick":
        return ns + [1000, 1001]
    # (a case with 5000 fields / occurrences / paragraphs / free comment lines takes 2 s: not run)
    return ns + _doc.LADDER_NS["big"] + [n for n in _doc.LADDER_NS["huge"]
                                         if n < 5000 or kind not in ("fields", "dups", "paragraphs", "gap-comments")]


def size_ls(tier):
    return [L for L in _doc.SIZE_LS if tier != "quick" or L <= 65537]


def ladder_descs(tier):
    out = []
    for kind in LADDER_KINDS:
        for n in ladder_ns(kind, tier):
            tails = ("closed", "open") if n <= 12 or (tier != "quick" and n <= 40) else (("open",) if n % 2 else ("closed",))
            for tail in tails:
                if kind == "trailing" and tail == "open":
                    continue
                d = {"kind": kind, "n": n, "tail": tail}
                out.append(d)
                if kind == "lines" and n <= 40:
                    out.append(dict(d, pos="last"))
    for L in size_ls(tier):
        for ci, content in enumerate(SIZE_CONTENTS):
            out.append({"kind": "size", "n": L, "content": content, "tail": "open" if (ci + L) % 2 else "closed",
                        "pos": "last" if ci % 3 == 2 else "mid", "multi": ci % 2 == 1})
    return out


def scale_units(tier, seed):
    out = []
    for name, d in deep_docs(seed):
        for k in range(DEEP_SLICES):
            out.append({"deep": name, "doc": d, "slice": k, "i": 7000 + len(out)})
    descs = ladder_descs(tier)
    small = [d for d in descs if d["n"] <= 40 and d["kind"] != "size"]
    mid = [d for d in descs if 40 < d["n"] <= 257 and d["kind"] != "size"]
    rest = [d for d in descs if d["n"] > 257 or d["kind"] == "size"]
    for k in range(8):
        out.append({"ladders": small[k::8], "i": 8000 + k})
    for k in range(8):
        out.append({"ladders": mid[k::8], "i": 8010 + k})
    for k, d in enumerate(rest):
        out.append({"ladders": [d], "i": 8100 + k})
    return out


def deep_plan(name, tier):
    """(depth, alphabet) of a deep document"""
    if name == "unique":
        return (4, ops_deep) if tier == "quick" else (4, ops_deep_wide)
    return (5 if tier == "quick" else 6), ops_deep


def run_scale(part, u, tier, seed):
    if "deep" in u:
        route = {"family": "deep/" + u["deep"], "reparse-memo": True}
        base = {"doc": u["doc"], "route": route}
        depth, fn = deep_plan(u["deep"], tier)
        _doc.explore(part, u["doc"], fn, depth, 0, NL, base, first_slice=(u["slice"], DEEP_SLICES))
        return part
    for d in u["ladders"]:
        fam = ("size/%s" % d["content"]) if d["kind"] == "size" else "ladder/" + d["kind"]
        base = {"ladder": d, "route": {"family": fam}}
        fn = ops_ladder if d["n"] <= 12 else ops_ladder_reduced if d["n"] <= 40 and d["kind"] != "size" else ops_ladder_minimal
        _doc.explore(part, _doc.ladder_spec(d), fn, 1, 0, NL, base)
        part.extra["ladder-documents"] += 1
    part.sample(dict(base, history=[("sort", 0)]))
    return part
