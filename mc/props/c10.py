"""C10 - structural edits of a preserved document only move or insert whole elements (Engine A)."""
from .. import core
from . import _doc
from .c05 import strip_final_newline

ID = "C10"
LEVEL = "model_checking"
RULE = ("documents generated from segments with unique and with duplicated field names (A B A C A), comments attached "
        "to fields, free comments, every kind of last line, final newline present or absent; states = distinct model "
        "documents reached, transitions = one structural operation (order_first/last/before/after with indexed and "
        "unindexed keys, sort_fields, indexed/unindexed set and delete, insert/append of a new paragraph) applied to "
        "model and implementation; traces = complete histories replayed in tree mode; non-trivial = states other than "
        "the initial document")
BUDGET = {"quick": 240, "thorough": 3000}
NL = "any"


def bounds(tier):
    return {"documents": len(docs(0)), "tree_depth": 2 if tier == "quick" else 3,
            "graph_depth": 3 if tier == "quick" else 4,
            "graph_alphabet": "moves with unindexed keys and index 0/last, sort, append, insert(0)"}


def assumptions():
    return ["a missing newline at the very end of the document may be supplied by any operation",
            "a deleted field's own comment lines may go or stay", "a new paragraph is separated by 1-2 blank lines and "
            "may land on either side of free comments in the gap (docstring of insert)",
            "out-of-range indices, absent keys and self-relative moves are outside the statement",
            "sort order = stable sort on the lower-cased name"]


def docs(seed):
    v = core.rep(seed, ["1", "q", "1.0", "é"])
    F = lambda n, val, lay=0: [(n, "", "%s: %s\n" % (n, val)), (n, "", "%s:%s\n" % (n, val)),
                               (n, "#cm %s\n" % val, "%s: %s\n" % (n, val)),
                               (n, "", "%s: %s\n more\n" % (n, val)),
                               (n, "", "%s: %s\n#in\n more\n" % (n, val))][lay]
    out = []
    out.append([("par", [F("A", v)])])
    out.append([("par", [F("A", v), F("B", "2", 1), F("C", "3", 2)])])
    out.append([("par", [F("C", v, 3), F("b", "2", 2), F("A", "3")])])
    out.append([("par", [F("A", v), F("B", "2"), F("A", "3", 3), F("C", "4"), F("A", "5", 2)])])
    out.append([("par", [F("A", v, 2), F("a", "2"), F("B", "3", 4), F("B", "4")])])
    out.append([("par", [F("A", v), F("B", "2")]), ("raw", "\n"), ("par", [F("C", "3"), F("A", "4", 3)])])
    out.append([("par", [F("A", v), F("A", "2")]), ("raw", "\n#free\n\n"), ("par", [F("C", "3")])])
    out.append([("raw", "#top\n\n"), ("par", [F("A", v), F("B", "2")]), ("raw", "\n\n"), ("par", [F("C", "3")])])
    res = []
    for d in out:
        res.append(d)
        res.append(strip_final_newline(d))
    # every kind of last line, with and without its newline
    for tail in ("#end\n", "  \n", "\n#end\n", "\n", "\n\n"):
        for base in ([F("A", v), F("B", "2")], [F("A", v), F("B", "2"), F("A", "3")]):
            d = [("par", base), ("raw", tail)]
            res.append(d)
            if tail not in ("\n", "\n\n"):
                res.append(strip_final_newline(d))
    return res


NEWPARS = [(("X", "y"),), (("X", "y\n z"), ("Y", "w"))]


def _keys(par, indexed):
    names = []
    for f in par:
        if f.name.lower() not in [n.lower() for n in names]:
            names.append(f.name)
    keys = []
    for n in names:
        keys.append(n)
        c = len(_doc.occ(par, n))
        if c > 1 and indexed:
            idxs = range(c) if indexed == "all" else sorted({0, c - 1})
            keys += [(n, i) for i in idxs]
    return keys


def ops_full(doc):
    ops = []
    ps = _doc.pars(doc)
    for pi, par in enumerate(ps):
        keys = _keys(par, "all")
        for k in keys:
            ops.append(("first", pi, k))
            ops.append(("last", pi, k))
            for r in keys:
                ops.append(("before", pi, k, r))
                ops.append(("after", pi, k, r))
            ops.append(("set", pi, k, "z"))
            ops.append(("del", pi, k))
        if keys and isinstance(keys[0], str):
            ops.append(("set", pi, keys[0].swapcase(), "z\n zz"))
            ops.append(("first", pi, keys[-1].swapcase() if isinstance(keys[-1], str) else keys[-1]))
        ops.append(("sort", pi))
        if not _doc.occ(par, "N"):
            ops.append(("set", pi, "N", "n"))
        # to be refused, leaving the document as it was
        k0 = keys[0] if keys else "A"
        ops.append(("before", pi, k0, "Zz-absent"))
        ops.append(("after", pi, k0, "Zz-absent"))
        ops.append(("first", pi, "Zz-absent"))
        ops.append(("before", pi, "Zz-absent", k0))
        ops.append(("del", pi, "Zz-absent"))
        ops.append(("after", pi, k0, k0))
    for i in range(len(ps) + 1):
        ops.append(("insert", i, NEWPARS[0]))
    ops.append(("insert", 0, NEWPARS[1]))
    ops.append(("append", NEWPARS[0]))
    ops.append(("append", NEWPARS[1]))
    return ops


def ops_small(doc):
    ops = []
    ps = _doc.pars(doc)
    for pi, par in enumerate(ps):
        keys = _keys(par, "ends")
        for k in keys:
            ops.append(("first", pi, k))
            ops.append(("last", pi, k))
        names = [k for k in keys if isinstance(k, str)]
        for k in names:
            for r in names:
                ops.append(("before", pi, k, r))
                ops.append(("after", pi, k, r))
        ops.append(("sort", pi))
        if keys:
            ops.append(("del", pi, keys[-1]))
        else:
            ops.append(("set", pi, "N", "n"))
    ops.append(("insert", 0, NEWPARS[0]))
    ops.append(("append", NEWPARS[0]))
    return ops


def large_docs(seed):
    """more fields, more occurrences, longer values than the depth-2 documents (explored to depth 1, thorough 2)"""
    long_v = "x" * 120
    F = lambda n, val: (n, "", "%s: %s\n" % (n, val))
    M = lambda n, k: (n, "# about %s\n# second comment line\n" % n, "%s: first\n" % n + "".join(" line %d %s\n" % (i, "y" * 30) for i in range(k)))
    names = ["Source", "Section", "Priority", "Maintainer", "Uploaders", "Build-Depends", "Standards-Version", "Homepage"]
    d1 = [("par", [F(names[0], "a"), F(names[1], long_v), M(names[2], 5), F(names[3], "m"), M(names[4], 2),
                   F(names[5], "b"), F(names[6], "4.6"), F(names[7], "h")])]
    d2 = [("par", [F("A", "1"), F("B", "2"), F("A", "3"), M("A", 3), F("C", "4"), F("A", "5"), F("B", "6"), F("A", long_v)])]
    return [d1, strip_final_newline(d1), d2, strip_final_newline(d2)]


def units(tier, seed):
    out = [{"doc": d, "i": i} for i, d in enumerate(docs(seed))]
    out += [{"doc": d, "i": 1000 + i, "large": True} for i, d in enumerate(large_docs(seed))]
    return out


def unit_cost(u, tier):
    return sum(len(it[1]) for it in u["doc"] if it[0] == "par") ** 3


def run_unit(u, tier, seed):
    part = core.Part()
    td, gd = (2, 3) if tier == "quick" else (3, 4)
    nf = sum(len(it[1]) for it in u["doc"] if it[0] == "par")
    if nf >= 5 and tier == "quick":
        gd = 2
    base = {"doc": u["doc"]}
    if u.get("large"):
        td, gd = (1, 0) if tier == "quick" else (2, 0)
    _doc.explore(part, u["doc"], ops_full, td, gd, NL, base, ops_small)
    ops = [o for o in ops_full(_doc.from_spec(u["doc"])) if _doc.enabled(_doc.from_spec(u["doc"]), o)]
    part.sample(dict(base, history=[ops[len(ops) // 2]]))
    return part


def replay(case):
    hist = []
    for op in case["history"]:
        op = list(op)
        if op[0] in ("insert", "append"):
            op[-1] = tuple(tuple(x) for x in op[-1])
        else:
            for i in (2, 3):
                if i < len(op) and isinstance(op[i], list):
                    op[i] = tuple(op[i])
        hist.append(tuple(op))
    _d, bad = _doc.run_history(case["doc"], hist, NL)
    return bad
