"""C17 - copyright documents and licence texts survive dump -> strict re-parse.

Engine B, two parts:
  codec  every list of lines of length 0..n over a pool of 10 line shapes (empty, blank, tab, '.', ' .', '..',
         plain, indented, trailing blank, non-ASCII; thorough: 14 shapes, n = 6, and lengths 7..8 over a core of 5): parse_multiline_as_lines(format_multiline_lines(L)) == L,
         the str-level pair parse_multiline/format_multiline, and License.from_str(License.to_str());
  doc    header variants x every sequence of 0..3 paragraphs from a pool of 35 (30 Files paragraphs = 3 pattern
         lists x 2 copyright texts x 5 licences, and 5 stand-alone licences), built through the public API,
         dumped, re-parsed with strict=True, compared field by field with what was put in, and dumped again;
  long   the same document oracle on long and awkward values: Files lists whose joined length takes every value from
         11 to 128 characters (k = 1..12 copies of a 9-character hyphenated pattern after a lead-in pattern of 0..8 or 10
         characters, so that a hyphen, a blank and the middle of a pattern fall on every column up to 130), k = 1..6
         copies of a path with two hyphens, growing prefixes of a realistic list, single patterns of 73 / 80 / 150
         characters with and without hyphens, 40 one-character patterns; copyright and licence texts with a
         200-character line and with 30 lines, a 90-character synopsis; a header with 5 Upstream-Contact entries, a
         150-character Source and a 30-line licence.
  weak   licence texts with white-space-only lines (blanks, tabs) in the middle - outside the statement's exact round trip:
         same paragraph sequence, every other value unchanged, the text back with these lines empty, second dump identical.
  kinds  the dumped text is re-parsed as Copyright(list of lines with newlines) everywhere above.  A subset of the documents
         (minimal and full header x no / each single paragraph; minimal header x 35 two-paragraph sequences; the long-text
         paragraphs in their three contexts and ten long Files lists) is re-parsed in every other documented way of handing
         text to Copyright(...): lines without their newlines, a tuple, a generator (with / without newlines), io.StringIO, a
         text-mode file object, the whole str, the whole text as UTF-8 bytes, UTF-8 bytes lines / io.BytesIO with
         encoding=, bytes lines / io.BytesIO in another 8-bit encoding with encoding=.  Same paragraph descriptions, same second dump; and the second dump is
         also taken with dump(f=io.StringIO()), which must write the same text.
  routes a subset of the documents (every header x no / each single paragraph, every ordered pair under the minimal header,
         35 triples, the empty-value and long-text documents) is built, read and written the other public ways (DOC_ROUTES):
         constructors over Deb822 mappings, values set after adding / after a dump and edited back, iterables and keyword
         arguments, paragraphs taken over from a parsed document, deepcopy (and independence of the copy), iteration protocols,
         mapping access to raw values, per-paragraph dumps in five forms, dump to text files, strict=False, positional
         arguments, dump before any read, two documents alive, the same line list parsed twice.  Each must give the reference
         description and the very text the ordinary build dumps.
  ladder beyond the small scope: COUNT ladders - one otherwise simple input for every n in 1..40 and 63 64 65 100 127 128 129 255 256
         257 999 1000 1001 1025 2500 2501 5000 - over lines per text and EMPTY lines per text (codec and licence of a Files paragraph /
         License paragraph / header; runs, scattered, leading), lines per Copyright value, patterns per Files field, contacts,
         paragraphs per document (to 1025 at quick); SIZE ladders - one value of exactly L characters, L around 1000, 4096, 16 Ki,
         64 Ki, 128 Ki, 256 Ki, for a text line, a whole text, a Copyright line, a pattern, a Files list, a synopsis, the Source,
         with blanks / multi-byte characters / 'word:' / newlines exactly at the block boundaries.  Inputs are generated from the
         compact case; signatures start with the family ("ladder/empty-lines...", "size/pattern/...").
"""
import io
import itertools
import logging

from .. import core

ID = "C17"
LEVEL = "model_checking"
RULE = ("Engine B: states = prefixes of line lists / paragraph sequences generated; transitions = one line / one "
        "paragraph appended; traces = complete line lists run through format+parse (three API levels) and complete "
        "documents built, dumped, re-parsed and re-dumped.  Non-trivial = in-domain line lists of >= 2 lines with an "
        "empty line, a line starting with a blank or a dot-like line after the first; documents with >= 2 paragraphs "
        "mixing Files and License paragraphs or carrying a licence text with empty/indented/dot-like lines; codec sweep: "
        "one state / transition / trace per line list built around one swept character; long documents: one state / "
        "transition per paragraph appended, one trace per document; non-trivial = the document carries a Files value "
        "longer than 72 characters, a text line of >= 200 characters, a text of >= 30 lines or >= 5 contacts; input kinds: "
        "the way the dumped text is handed back to Copyright(...) is one more choice below the document: one state / "
        "transition / trace per (document, kind), non-trivial by the document's own rule; routes: likewise one state / "
        "transition / trace per (document, route); ladders: one state / transition / trace / evaluation per generated input "
        "(family, n or L, arrangement, position, input kind), non-trivial when n >= 4 (beyond the small scope)")
BUDGET = {"quick": 240, "thorough": 3000}

FORMAT = "https://www.debian.org/doc/packaging-manuals/copyright-format/1.0/"


def bounds(tier):
    return {"codec_pool": "10 line shapes" if tier == "quick" else "14 line shapes (the 10 + '. ', '.x', '  .', '<tab>.')",
            "codec_len": "0..%d" % _codec_n(tier) + (
                "; lengths %d..%d over the core pool of %d shapes (empty, '.', plain, indented, ' .')"
                % (_codec_n(tier) + 1, CODEC_CORE_N, len(CODEC_CORE)) if tier == "thorough" else ""),
            "codec_sweep": "one character at a time: c = each of %d characters (printable ASCII U+0020..U+007E, %d "
                           "non-ASCII) in the line lists %r, lists outside the codec domain left out"
                           % (len(sweep_chars()), len(SWEEP_NON_ASCII), [[l.replace("%", "<c>") for l in t] for t in SWEEP_LISTS]),
            "doc_pool": "30 Files paragraphs (3 pattern lists x 2 copyrights x 5 licences, one whose text starts with an empty line) + 5 stand-alone licences",
            "doc_sequences": "0..3 paragraphs" + ("; 4 paragraphs (35^4 sequences) under the headers #%s (minimal, Source + two "
                                                  "contacts, Upstream-Name + License, full)" % (HEADERS_LEN4,) if tier == "thorough" else ""),
            "doc_long": long_bounds(tier),
            "doc_input_kinds": {"kinds": list(DOC_KINDS),
                                "documents": "minimal and full header x (no paragraph, each of the 35 paragraphs); minimal header x 35 "
                                             "two-paragraph sequences (paragraph i followed by paragraph (7i+3) mod 35); the 11 "
                                             "long-text paragraphs in their 3 contexts; 10 long Files lists",
                                "checked": "paragraph descriptions of the re-parsed document, second dump == first dump, "
                                           "dump(f=StringIO) writes the same text",
                                "other_encoding": "first of %s that can write the document" % (OTHER_ENCODINGS,)},
            "doc_order": "36 sequences of 2..3 paragraphs over 2 Files and 2 License paragraphs in which a License paragraph "
                         "precedes a Files paragraph (LF, LFF, LFL, LLF, FLF), written paragraph by paragraph, parsed strictly, then "
                         "dumped as is / after adding a Files, a License, or both paragraphs (insertion rule of the docstrings); the "
                         "dump re-parses to the same sequence",
            "doc_routes": {"routes": list(DOC_ROUTES),
                           "documents": "each of the 24 headers x (no paragraph, each of the 35 paragraphs); minimal header x every "
                                        "ordered pair of the 35 paragraphs; 35 three-paragraph sequences (i, 7i+3, 11i+5 mod 35) "
                                        "under header 5i mod 24; the empty-values documents; every third long-text document and 5 "
                                        "long Files lists",
                           "checked": "per route: values read == reference description, dump == the ordinary build's dump "
                                      "(differential), strict re-parse == reference, second dump identical; see DOC_ROUTES in the "
                                      "module for what each route does",
                           "paragraph_dumps": PARA_DUMPS},
            "codec_none": CODEC_NONE_CALLS,
            "beyond_the_small_scope": ladder_bounds(tier),
            "doc_headers": ("24 header variants (Upstream-Name, Source, Upstream-Contact 0/1/2 entries, License) x "
                            "sequences of 0..1 paragraphs; minimal and full header x sequences of 2..3 paragraphs"
                            if tier == "quick" else "24 header variants x every sequence")}


def assumptions():
    return ["codec domain as in the statement: the inverse law is demanded only for line lists in which no line is a "
            "lone '.' or consists of white space only (empty lines are allowed: they are what ' .' encodes); lists "
            "outside that domain are still executed and only classified",
            "[''] and [] denote the same (empty) text",
            "codec sweep: printable characters only; [' '] and ['x', ' '] (white-space-only line) and ['.'], ['x', '.'] "
            "(lone '.') fail the statement's precondition and are left out; control characters and the characters "
            "str.splitlines cuts at cannot be part of a *line* of a text that the codec itself splits with splitlines",
            "texts are '\\n'.join(lines) with a non-empty last line (a trailing newline cannot survive splitlines, "
            "and the statement speaks of lines)",
            "licence synopsis, single-line header values and the first line of a copyright text carry no leading or "
            "trailing white space (deb822 does not preserve blanks around the first line of a field value: "
            "License('X ', 'a') reads back as 'X')",
            "copyright texts are given in deb822 continuation form (the Copyright field has no codec)",
            "the expected paragraph order of a built document follows the documented insertion rule: a Files "
            "paragraph goes directly after the last Files paragraph, a License paragraph goes last",
            "long values: a Files pattern is any non-empty string without white space (hyphens, slashes, wildcards; "
            "the format sets no length limit for a pattern, a list, a line or a text), the same pattern may occur "
            "several times in a list; how the writer lays a long value out (one line or continuation lines) is left "
            "open - only what the strict re-parse returns and the identity of the second dump are compared",
            "long documents use the minimal header (and one long header) with the long paragraph alone, after one "
            "ordinary Files paragraph, or before one stand-alone License paragraph; they are not multiplied with the "
            "0..3-paragraph sequences",
            "weak domain (white-space-only lines): the statement promises the exact round trip of a licence text only when no "
            "line is white-space-only.  For texts that do have lines made of blanks and tabs the check demands what the format "
            "can keep (a white-space-only continuation line would end the paragraph) and what the unchanged library does: the "
            "document still dumps and re-parses in strict mode to the same paragraph sequence, every other value is unchanged, "
            "the text comes back with each white-space-only line EMPTY (or kept: both sides are compared after emptying such "
            "lines), and the second dump is identical.  Only blanks and tabs "
            "are used: \\x0b / \\x0c cannot be inside a line (splitlines cuts there) and for U+00A0 / U+3000 a writer that keeps "
            "them would not be wrong.  Copyright texts are not part of this family: they are handed over in deb822 continuation "
            "form, where an empty line is already written ' .' by the caller (a white-space-only continuation line in a "
            "Copyright value is written as it is and cuts the paragraph: 'Files paragraph missing License field' on re-parse)",
            "input kinds: Copyright documents 'sequence: Sequence of lines, e.g. a list of strings or a file-like object' and "
            "'encoding: Encoding to use, in case input is raw byte strings' (the underlying Deb822.iter_paragraphs also takes the "
            "whole text as one str); all of them read the same document on the unchanged library.  Lines 'without newline' are "
            "the dump split at '\\n'.  encoding= is only passed together with bytes input.  Copyright.dump documents f= 'a "
            "file-like object opened in text mode'",
            "routes: a document is 'built' whichever public way its paragraphs came into being - Header / FilesParagraph / "
            "LicenseParagraph constructed over a Deb822 mapping of raw field values (the documented constructor arguments), "
            "create() with tuples / iterators / keyword arguments, values set or overwritten through the properties after the "
            "paragraph was added (also after a first dump), paragraphs and header taken over from a parsed document, "
            "copy.deepcopy of a document.  Raw values handed to the constructors are in the form the format writes them "
            "(synopsis line, text lines after one blank, ' .' for an empty line; one contact on the field line, several on "
            "continuation lines).  After a header field was removed and set again its place inside the header is left open "
            "(only then is the text not compared with the ordinary build's)",
            "routes: strict=False must read a well-formed document exactly as strict=True and log no complaint; the per-"
            "paragraph dump() of RestrictedWrapper ('the dump method from Deb822 is directly proxied') joined by empty lines "
            "is the document's dump, as str, to a text stream with text_mode=True, or as UTF-8 bytes",
            "ladders: the statement bounds neither the number of lines, empty lines, patterns, contacts or paragraphs nor the size "
            "of a value; ladder inputs stay inside the domains above (texts end in a non-empty line, no white-space-only lines, "
            "patterns without white space, synopsis / first lines without surrounding blanks, Copyright in continuation form with ' .' "
            "for an empty line).  'Block boundaries' are positions inside the VALUE (multiples of 16384 / 65536 and its last "
            "character), not offsets in the dumped file (the field name and the header shift them by a few dozen bytes).  Ladders are "
            "bounded-exhaustive in n (every n listed), not in content: one to five arrangements per n",
            "routes left out: pickle (Deb822 objects hold weak references and cannot be pickled on the unchanged library); "
            "encoding= together with str input (str lines are re-decoded with that encoding on the unchanged library); "
            "multi-byte stream encodings with a byte-order mark for paragraph dumps (every field write would carry its own "
            "mark); Format-Specification / http: Format rewriting in Header (changes the document, only logged); Comment / "
            "Disclaimer and custom fields (not among the values the statement lists)"]


def _codec_n(tier):
    return 4 if tier == "quick" else 6


CODEC_CORE = [0, 2, 3, 4, 9]          # indices into codec_pool: "", ".", plain, indented, " ."
CODEC_CORE_N = 8                      # thorough: lengths n+1..8 over the core pool
HEADERS_LEN4 = [0, 10, 13, 23]        # thorough: headers under which every 4-paragraph sequence is run


# ------------------------------------------------------------------------------------------------ pools

def letters(seed):
    a = core.rep(seed, ["a", "q", "#", "-"])
    e = core.rep(seed, ["é", "ü", "Ж", "字"])
    return a, e


def codec_pool(seed, tier="quick"):
    a, e = letters(seed)
    pool = ["", " ", ".", a, " " + a, a + " ", "..", e, "\t", " ."]
    if tier == "thorough":
        pool += [". ", "." + a, "  .", "\t."]       # dot + blank, dot + text, two blanks + dot, tab + dot
    return pool


def doc_pools(seed):
    a, e = letters(seed)
    files = [["*"], ["src/*", "debian/*"], ["a?b", "\\*", "x"]]
    cps = ["2020 A", "2020 A\n 2021 B " + e]
    lics = [["GPL-2+", ""],
            ["MIT", "line1\n\n  indented\nlast " + e],
            ["X", " .\n..\n\tt\nend "],
            ["", "only text"],
            ["Y", "\nafter an empty first line"]]
    pool = []
    for f in files:
        for cp in cps:
            for l in lics:
                pool.append(["F", f, cp, l])
    for l in lics:
        pool.append(["L", l])
    headers = []
    for name in (None, "x"):
        for source in (None, "http://e/ " + e):
            for contact in (None, ["A <a@b>"], ["A <a@b>", "B " + e]):
                for lic in (None, lics[1]):
                    headers.append({"name": name, "source": source, "contact": contact, "license": lic})
    return pool, headers


# ------------------------------------------------------------------------------------------------ long values

LONG_GROUPS = ["files-hyphen9", "files-other", "texts", "header", "weak-ws", "empty-values", "layer-markers"]
WEAK_WS = [" ", "\t", " \t ", "  ", "\t\t"]
LONG_GROUPS_THOROUGH = ["files-hyphen9-more", "files-two-hyphens", "files-slash-star", "files-under-long-headers"]
_REALISTIC = ["debian/*", "doc/*.html", "src/lib-core/*.c", "src/lib-core/*.h", "tests/data-files/*",
              "third-party/zlib-ng/*", "po/*.po"]


def _plain_pattern(n):
    return "d/" + "a" * (n - 2)


def _hyphen_pattern(n):
    return ("abcd-" * (n // 5 + 1))[:n - 1] + "e"


def long_files(seed, group):
    """-> Files pattern lists, canonical (shortest-first) order"""
    hy = core.rep(seed, ["aaaa-bbbb", "qrst-uvwx", "zlib-ngxx", "core-util"])      # 9 characters, one inner hyphen
    out = []
    if group == "files-hyphen9":
        # lead-in pattern of 0 (none), 1..8 and 10 characters: the copies then start at every column modulo 10 and the
        # joined lengths are 9, every value from 11 to 128, and 130
        for k in range(1, 13):
            for o in (0, 1, 2, 3, 4, 5, 6, 7, 8, 10):
                out.append((["x" * o] if o else []) + [hy] * k)
        assert sorted({len(" ".join(f)) for f in out}) == [9] + list(range(11, 129)) + [130]
    elif group == "files-hyphen9-more":
        # the same family, 13..24 copies: joined lengths from 129 up to 250
        for k in range(13, 25):
            for o in (0, 1, 2, 3, 4, 5, 6, 7, 8, 10):
                out.append((["x" * o] if o else []) + [hy] * k)
    elif group == "files-two-hyphens":
        th = hy[:2] + "-" + hy[2:]            # 10 characters, two hyphens
        for k in range(1, 17):
            for o in range(0, 11):
                out.append((["x" * o] if o else []) + [th] * k)
    elif group == "files-slash-star":
        # directory globs of 7 characters: a slash and a star on every column up to 150
        for k in range(1, 19):
            for o in range(0, 8):
                out.append((["y" * o] if o else []) + ["ab/cd/*"] * k)
    else:
        for k in range(1, 7):
            for o in (0, 3, 7, 11, 15, 19):
                out.append((["x" * o] if o else []) + ["third-party/zlib-ng/*"] * k)
        for k in range(1, len(_REALISTIC) + 1):
            out.append(_REALISTIC[:k])
        for n in (73, 80, 150):
            for pat in (_plain_pattern(n), _hyphen_pattern(n)):
                assert len(pat) == n and not pat.endswith("-")
                out += [[pat], ["*", pat], [pat, "*"]]
        out.append(list("abcdefghijklmnopqrstuvwxyz0123456789ABCD"))
    return out


def long_texts(seed):
    """-> (copyright texts, licences [synopsis, text]) with a 200-character line / 30 lines"""
    a, e = letters(seed)
    line200 = ("lorem ipsum " + e + " dolor, sit-amet (c) ") * 8
    line200 = line200[:199] + "z"
    assert len(line200) == 200
    cps = ["2020 " + line200[5:],                       # first line of 200 characters
           "2020 A\n " + line200,                       # continuation line of 200 characters
           "\n ".join("%d Holder %d %s" % (1990 + i, i, e) for i in range(30))]
    t30 = []
    for i in range(30):
        t30.append("" if i % 7 == 3 else ("  indented %d" % i) if i % 7 == 5 else "line %d of the text %s" % (i, e))
    lics = [["MIT", line200],
            ["MIT", "short\n" + line200 + "\n\nend"],
            ["X", "\n".join(t30)],
            ["GPL-2+ or LGPL-2.1+ with OpenSSL-exception and Font-exception-2.0 or BSD-3-clause or Expat-" + a * 4,
             "\n".join(t30[:3])]]
    # the domain: texts end in a non-empty line (a trailing newline cannot survive splitlines)
    assert all(l[1].split("\n")[-1].strip() for l in lics) and all(c.split("\n")[-1].strip() for c in cps)
    return cps, lics


def long_headers(seed):
    a, e = letters(seed)
    cps, lics = long_texts(seed)
    contacts = ["A <a@b>", "B " + e, "C <c@d.example>",
                "Very Long Name Of The " + "Upstream-" * 8 + "Maintainers <list@lists.example.org>", "E <e@f>"]
    return [{"name": None, "source": None, "contact": contacts, "license": None},
            {"name": "x", "source": "http://e/" + "long-path/" * 14 + e, "contact": contacts, "license": lics[2]}]


def long_bounds(tier="quick"):
    more = {}
    if tier == "thorough":
        more = {"thorough_families": {
            "files-hyphen9-more": "13..24 copies of the 9-character pattern after the same lead-ins (joined length up to 250)",
            "files-two-hyphens": "1..16 copies of a 10-character pattern with two hyphens after a lead-in of 0..10 characters",
            "files-slash-star": "1..18 copies of 'ab/cd/*' after a lead-in of 0..7 characters",
            "files-under-long-headers": "every hyphen9 list (1..12 copies) alone under the two long headers",
            "lists": {g: len(long_files(0, g)) for g in LONG_GROUPS_THOROUGH[:3]}}}
    return dict(more, **_long_bounds())


def _long_bounds():
    return {"weak_domain": "licence texts with a white-space-only line (%r) in the middle, twice in a row before an indented line, "
                           "and as first text line; as licence of a Files paragraph, of a stand-alone License paragraph (each "
                           "followed by / following another paragraph) and of the header" % (WEAK_WS,),
            "files_lists": {g: len(long_files(0, g)) for g in LONG_GROUPS[:2]},
            "files_list_joined_length": "9, every value in 11..128, 130 (hyphen9 family: the copies start at every column modulo "
                                        "10), up to 152 (single long pattern with a neighbour)",
            "files_contexts": "minimal header; the paragraph alone, after one ordinary Files paragraph, before one License paragraph",
            "texts": "3 copyright texts (200-character first line, 200-character continuation line, 30 lines) and 4 "
                     "licences (200-character first / later text line, 30 lines with empty and indented lines, "
                     "90-character synopsis), the licences in a Files and in a stand-alone License paragraph; same 3 contexts",
            "headers": "5 Upstream-Contact entries (one of 130 characters) with nothing else, and with Upstream-Name, a "
                       "150-character Source and a 30-line licence; x (no paragraph, each of the 35 ordinary, each of "
                       "the 11 long-text paragraphs, 10 long Files lists)"}


def long_cases(seed, group):
    dpool, headers = doc_pools(seed)
    minimal = headers[0]
    before, after = dpool[0], dpool[31]
    assert before[0] == "F" and after[0] == "L"
    cps, lics = long_texts(seed)

    def contexts(p):
        return [[p], [before, p], [p, after]]

    text_paras = ([["F", ["*"], cp, dpool[1][3]] for cp in cps] + [["F", ["*"], "2020 A", l] for l in lics]
                  + [["L", l] for l in lics])
    cases = []
    if group == "weak-ws":
        # licence texts with white-space-only lines (outside the exact-equality domain, see assumptions): the paragraph with
        # such a text is followed / preceded by another paragraph, so that a text that cuts its paragraph is seen
        a, e = letters(seed)
        other_f, other_l = dpool[0], dpool[31]
        for ws in WEAK_WS:
            for t in ("a\n" + ws + "\nb", "line1\n" + ws + "\n" + ws + "\n  indented\nlast " + e, ws + "\nafter a blank first line"):
                for p in (["F", ["*"], "2020 A", ["X", t]], ["L", ["Y", t]]):
                    for paras in ([p, other_l], [other_f, p]):
                        cases.append({"part": "doc", "header": minimal, "paras": paras, "weak": True})
                cases.append({"part": "doc", "header": dict(minimal, license=["H", t]), "paras": [other_f, other_l], "weak": True})
    elif group == "files-under-long-headers":
        for h in long_headers(seed):
            for f in long_files(seed, "files-hyphen9"):
                cases.append({"part": "doc", "header": h, "paras": [["F", f, "2020 A", ["GPL-2+", ""]]]})
    elif group.startswith("files-"):
        for f in long_files(seed, group):
            for paras in contexts(["F", f, "2020 A", ["GPL-2+", ""]]):
                cases.append({"part": "doc", "header": minimal, "paras": paras})
    elif group == "texts":
        for p in text_paras:
            for paras in contexts(p):
                cases.append({"part": "doc", "header": minimal, "paras": paras})
    elif group == "layer-markers":
        # text lines that are markers of another layer of the format: armor lines, field lines, comment lines
        marks = ["-----BEGIN PGP SIGNATURE-----", "-----BEGIN PGP SIGNED MESSAGE-----", "-----END PGP SIGNATURE-----",
                 "Files: *", "License: GPL-2", "#comment", "Format: x", "Hash: SHA512"]
        for m in marks:
            t = "first line\n" + m + "\nlast line"
            for p in (["F", ["*"], "2020 A", ["X", t]], ["F", ["*"], "2020 A\n " + m, ["X", "t"]], ["L", ["Y", t]],
                      ["F", ["*"], "2020 A", ["X", m]]):
                for paras in ([p, after], [before, p, after]):
                    cases.append({"part": "doc", "header": minimal, "paras": paras})
            cases.append({"part": "doc", "header": dict(minimal, license=["H", t]), "paras": [before, after]})
    elif group == "empty-values":
        # fields that are present but empty: no copyright text, a licence with neither synopsis nor text
        for p in (["F", ["*"], "", ["MIT", "text"]], ["F", ["*"], "2020 A", ["", ""]], ["F", ["*"], "", ["", ""]],
                  ["F", ["a", "b/*"], "", ["GPL-2+", ""]], ["L", ["", ""]]):
            for paras in contexts(p) + [[p, p]]:
                cases.append({"part": "doc", "header": minimal, "paras": paras})
        for paras in ([], [before]):
            cases.append({"part": "doc", "header": dict(minimal, license=["", ""]), "paras": paras})
            cases.append({"part": "doc", "header": dict(minimal, name="", source=""), "paras": paras})
    else:
        some_files = [["F", f, "2020 A", ["GPL-2+", ""]] for f in long_files(seed, "files-hyphen9")[70:80]]
        for h in long_headers(seed):
            for paras in [[]] + [[p] for p in dpool] + [[p] for p in text_paras] + [[p] for p in some_files]:
                cases.append({"part": "doc", "header": h, "paras": paras})
    return cases


def long_features(case):
    """what is long about a document (the non-triviality rule of the long part, and its outcome classes)"""
    f = set()
    texts = []
    h = case["header"]
    if case.get("weak"):
        f.add("white-space-only line in a licence text")
    if h["contact"] and len(h["contact"]) >= 5:
        f.add("contacts>=5")
    if h["license"]:
        texts.append(h["license"][1])
    if h["source"]:
        texts.append(h["source"])
    for p in case["paras"]:
        if p[0] == "F":
            if len(" ".join(p[1])) > 72:
                f.add("files>72")
            if any(len(x) > 72 for x in p[1]):
                f.add("pattern>72")
            texts += [p[2], p[3][0], p[3][1]]
        else:
            texts += [p[1][0], p[1][1]]
    for t in texts:
        lines = t.split("\n")
        if any(len(l) >= 200 for l in lines):
            f.add("line>=200")
        elif any(len(l) > 72 for l in lines):
            f.add("line>72")
        if len(lines) >= 30:
            f.add("lines>=30")
    return sorted(f)


def _doc_long_unit(part, u, seed):
    cases = long_cases(seed, u["group"])
    prefixes = set()
    for case in cases:
        bad, cls = run_doc_case(case)
        feats = long_features(case)
        for n in range(1, len(case["paras"]) + 1):
            prefixes.add(repr((case["header"], case["paras"][:n])))
        part.traces += 1
        part.evaluations += 1
        part.outcomes["long/%s %s" % (cls, ",".join(feats) or "-")] += 1
        if feats or _doc_nontrivial(case["paras"]):
            part.nontrivial += 1
        for sig, e, o in bad:
            part.violation(sig, case, e, o, rank=10)
        part.max_depth = max(part.max_depth, len(case["paras"]))
    part.states += len(prefixes)
    part.transitions += len(prefixes)
    part.extra["long documents"] += len(cases)
    part.sample(cases[len(cases) // 2])
    return part


# ------------------------------------------------------------------------------------------------ codec sweep

SWEEP_NON_ASCII = ["é", "ß", "Ω", "я", "中", "ç", "ñ", "ø", "ж", "ü", "λ", "√"]
SWEEP_LISTS = [["x%y"], ["", "x%"], ["%"], ["x", "%"], ["x", "%y"]]
SWEEP_CHUNK = 27


def sweep_chars():
    return [chr(cp) for cp in range(0x20, 0x7F)] + SWEEP_NON_ASCII


def sweep_lists(c):
    """-> the in-domain line lists for one swept character"""
    return [x for x in ([l.replace("%", c) for l in t] for t in SWEEP_LISTS) if in_domain(x)]


def _codec_sweep_unit(part, u):
    first = None
    for c in u["chars"]:
        for lines in sweep_lists(c):
            case = {"part": "codec", "lines": lines}
            first = first or case
            bad, cls = run_codec_case(case)
            part.states += 1
            part.transitions += 1
            part.traces += 1
            part.evaluations += 1
            part.outcomes["codec-sweep:" + cls] += 1
            if _codec_nontrivial(lines):
                part.nontrivial += 1
            for sig, e, o in bad:
                part.violation(sig, case, e, o, rank=100)
    part.max_depth = 2
    part.sample(first)
    return part



# ------------------------------------------------------------------------------------------------ routes
# "the other way in": the same document reached through the other public ways of building it, of reading it back and of
# writing it.  Every route is judged against the reference description of the document and, differentially, against the
# text the ordinary build (Copyright() + property setters + create() + add_*_paragraph) dumps.

DOC_ROUTES = ["build/deb822-constructors", "build/set-after-add", "build/edit-after-dump", "build/iterables",
              "build/from-parsed", "build/deepcopy", "read/iteration", "read/mapping-access", "dump/per-paragraph",
              "dump/text-file", "parse/non-strict", "parse/positional-arguments", "parse/dump-first", "parse/two-documents",
              "parse/same-lines-twice"]
ROUTE_GROUPS = ["triples", "empty-values", "long"]       # + one unit per header ("header", h) and per first paragraph ("pair", i)


def route_documents(seed, group):
    dpool, headers = doc_pools(seed)
    if isinstance(group, (list, tuple)) and group[0] == "header":
        h = headers[group[1]]
        return [(h, [])] + [(h, [p]) for p in dpool]
    if isinstance(group, (list, tuple)) and group[0] == "pair":
        return [(headers[0], [dpool[group[1]], q]) for q in dpool]
    if group == "triples":
        n = len(dpool)
        return [(headers[(5 * i) % len(headers)], [dpool[i], dpool[(7 * i + 3) % n], dpool[(11 * i + 5) % n]]) for i in range(n)]
    if group == "empty-values":
        return [(c["header"], c["paras"]) for c in long_cases(seed, "empty-values")]
    return [(c["header"], c["paras"]) for c in long_cases(seed, "texts")[::3]] + \
           [(c["header"], c["paras"]) for c in long_cases(seed, "files-hyphen9")[210:240:6]]


def _build_default(C, header, paras):
    doc = C.Copyright()
    if header["name"] is not None:
        doc.header.upstream_name = header["name"]
    if header["source"] is not None:
        doc.header.source = header["source"]
    if header["contact"] is not None:
        doc.header.upstream_contact = list(header["contact"])
    if header["license"] is not None:
        doc.header.license = C.License(header["license"][0], header["license"][1])
    for p in paras:
        if p[0] == "F":
            doc.add_files_paragraph(C.FilesParagraph.create(list(p[1]), p[2], C.License(p[3][0], p[3][1])))
        else:
            doc.add_license_paragraph(C.LicenseParagraph.create(C.License(p[1][0], p[1][1])))
    return doc


def raw_licence(lic):
    """the License field value as the format writes it: synopsis, then each text line after one blank, an empty line as ' .'"""
    if not lic[1]:
        return lic[0]
    return lic[0] + "".join("\n " + (l if l.strip() else ".") for l in lic[1].split("\n"))


def raw_contacts(contacts):
    return contacts[0] if len(contacts) == 1 else "".join("\n " + c for c in contacts)


def _set_values(C, doc, header, paras):
    """write the values of (header, paras) into an existing document of the same paragraph kinds, through the properties
    of the paragraph objects the document hands out"""
    h = doc.header
    h.upstream_name = header["name"]
    h.source = header["source"]
    h.upstream_contact = list(header["contact"] or [])
    h.license = C.License(header["license"][0], header["license"][1]) if header["license"] is not None else None
    want_seq = model_sequence(paras)
    objs = list(doc.all_paragraphs())[1:]
    for o, p in zip(objs, want_seq):
        if p[0] == "F":
            o.license = C.License(p[3][0], p[3][1])
            o.copyright = p[2]
            o.files = list(p[1])
        else:
            o.license = C.License(p[1][0], p[1][1])


def _placeholder(header, paras):
    """a document of the same shape with other values everywhere (optional header fields all present)"""
    h = {"name": "placeholder", "source": "http://placeholder/", "contact": ["P <p@q>", "Q", "R"], "license": ["ZZ", "zz\n\n zz"]}
    ps = [["F", ["zz/*", "yy"], "1999 Z\n 2000 Y", ["ZZ", "zz"]] if p[0] == "F" else ["L", ["ZZ", "\nzz"]] for p in paras]
    return h, ps


def _check_document(C, doc, want, ref_text, pre, what):
    """description, dump == the ordinary build's dump, strict re-parse, identical second dump"""
    try:
        got = describe(C, doc)
    except Exception as e:
        return [(pre + what + "-read-raises/" + type(e).__name__, "values read", repr(e))]
    if got != want:
        d = _first_difference(want, got)
        return [(pre + what + "/" + d[0], d[1], d[2])]
    try:
        text = doc.dump()
    except Exception as e:
        return [(pre + what + "-dump-raises/" + type(e).__name__, "text", repr(e))]
    if ref_text is not None and text != ref_text:
        return [(pre + what + "-dump", ref_text, text)]
    try:
        doc2 = C.Copyright(text.splitlines(True), strict=True)
        again = describe(C, doc2)
        text2 = doc2.dump()
    except Exception as e:
        return [(pre + what + "-reparse-raises/" + type(e).__name__, "strict parse of %r succeeds" % (text,), repr(e))]
    if again != want:
        d = _first_difference(want, again)
        return [(pre + what + "-reparse/" + d[0], d[1], "%s  (dump: %r)" % (d[2], text))]
    if text2 != text:
        return [(pre + what + "-redump", text, text2)]
    return []


def _para_texts(doc, how):
    out = []
    for p in doc.all_paragraphs():
        if how == "dump()":
            out.append(p.dump())
        elif how == "dump(text_mode=True)":
            out.append(p.dump(text_mode=True))
        elif how == "dump(encoding='utf-8')":
            out.append(p.dump(encoding="utf-8"))
        elif how == "dump(StringIO, text_mode=True)":
            f = io.StringIO()
            r = p.dump(f, text_mode=True)
            out.append(f.getvalue() if r is None else "returned %r" % (r,))
        elif how == "dump(BytesIO)":
            f = io.BytesIO()
            r = p.dump(f)
            out.append(f.getvalue().decode("utf-8") if r is None else "returned %r" % (r,))
        else:
            raise AssertionError(how)
    return "\n".join(out)


PARA_DUMPS = ["dump()", "dump(text_mode=True)", "dump(encoding='utf-8')", "dump(StringIO, text_mode=True)", "dump(BytesIO)"]


def run_route_case(case):
    """-> (violations, outcome class) for one (document, route)"""
    import copy
    import tempfile
    C = _copyright()
    from debian import deb822
    header, paras, route = case["header"], case["paras"], case["route"]
    pre = "via-%s/" % route
    want = model_description(header, paras)
    try:
        ref = _build_default(C, header, paras)
        ref_text = ref.dump()
        ref_doc2 = C.Copyright(ref_text.splitlines(True), strict=True)
        if describe(C, ref) != want or describe(C, ref_doc2) != want or ref_doc2.dump() != ref_text:
            raise ValueError("ordinary route differs")
    except Exception:
        # the ordinary route itself fails on this document: that is the ordinary document pass's finding
        return run_doc_case({"part": "doc", "header": header, "paras": paras})[0], "ordinary-route-fails"
    seq = model_sequence(paras)
    try:
        if route == "build/deb822-constructors":
            hd = {"Format": FORMAT}
            if header["name"] is not None:
                hd["Upstream-Name"] = header["name"]
            if header["source"] is not None:
                hd["Source"] = header["source"]
            if header["contact"]:
                hd["Upstream-Contact"] = raw_contacts(header["contact"])
            if header["license"] is not None:
                hd["License"] = raw_licence(header["license"])
            doc = C.Copyright()
            doc.header = C.Header(deb822.Deb822(hd))
            for p in paras:
                if p[0] == "F":
                    d = deb822.Deb822({"Files": " ".join(p[1]), "Copyright": p[2], "License": raw_licence(p[3])})
                    doc.add_files_paragraph(C.FilesParagraph(d, strict=True))
                else:
                    doc.add_license_paragraph(C.LicenseParagraph(deb822.Deb822({"License": raw_licence(p[1])})))
            return _check_document(C, doc, want, ref_text, pre, "doc"), "route:" + route
        if route in ("build/set-after-add", "build/edit-after-dump"):
            ph, pp = _placeholder(header, paras)
            doc = _build_default(C, ph, pp)
            if route == "build/edit-after-dump":
                # the placeholder document is read, dumped, re-parsed and matched first (warm caches), then edited
                bad = _check_document(C, doc, model_description(ph, pp), doc.dump(), pre, "placeholder")
                if bad:
                    return bad, "differs"
                for fp in doc.all_files_paragraphs():
                    fp.matches("zz/a")
            _set_values(C, doc, header, paras)
            bad = _check_document(C, doc, want, ref_text, pre, "doc")
            if bad or route == "build/set-after-add":
                return bad, "route:" + route
            # and back again: a second edit of the same objects, a third dump (a header field that was removed and is set
            # again may take another place in its paragraph: the text is not compared with the ordinary build's)
            _set_values(C, doc, ph, pp)
            return _check_document(C, doc, model_description(ph, pp), None, pre, "edited-back"), "route:" + route
        if route == "build/iterables":
            doc = C.Copyright()
            h = doc.header
            if header["name"] is not None:
                h.upstream_name = header["name"]
            if header["source"] is not None:
                h.source = header["source"]
            if header["contact"] is not None:
                h.upstream_contact = (c for c in tuple(header["contact"]))
            if header["license"] is not None:
                h.license = C.License(text=header["license"][1], synopsis=header["license"][0])
            for i, p in enumerate(paras):
                if p[0] == "F":
                    files = tuple(p[1]) if i % 2 else iter(list(p[1]))
                    lic = C.License(synopsis=p[3][0], text=p[3][1]) if p[3][1] else (C.License(p[3][0], None) if i % 2 else C.License(p[3][0]))
                    doc.add_files_paragraph(C.FilesParagraph.create(files=files, copyright=p[2], license=lic))
                else:
                    doc.add_license_paragraph(C.LicenseParagraph.create(license=C.License.from_str(raw_licence(p[1]))))
            return _check_document(C, doc, want, ref_text, pre, "doc"), "route:" + route
        if route == "build/from-parsed":
            # the header and the paragraphs of a parsed document, put into a new document
            doc = C.Copyright()
            doc.header = ref_doc2.header
            for p in list(ref_doc2.all_paragraphs())[1:]:
                if isinstance(p, C.FilesParagraph):
                    doc.add_files_paragraph(p)
                else:
                    doc.add_license_paragraph(p)
            return _check_document(C, doc, want, ref_text, pre, "doc"), "route:" + route
        if route == "build/deepcopy":
            for name, src in (("built", ref), ("parsed", ref_doc2)):
                doc = copy.deepcopy(src)
                bad = _check_document(C, doc, want, ref_text, pre, "copy-of-" + name)
                if bad:
                    return bad, "differs"
                # the copy is a document of its own
                ph, pp = _placeholder(header, paras)
                _set_values(C, doc, ph, pp)
                bad = _check_document(C, src, want, ref_text, pre, name + "-after-editing-its-copy")
                if bad:
                    return bad, "differs"
            return [], "route:" + route
        if route == "read/iteration":
            for name, doc in (("built", ref), ("parsed", ref_doc2)):
                allp = list(doc.all_paragraphs())
                if [id(x) for x in doc] != [id(x) for x in allp] or [id(x) for x in iter(doc)] != [id(x) for x in allp]:
                    return [(pre + name + "/iter", "the paragraphs of all_paragraphs()", [type(x).__name__ for x in doc])], "differs"
                if allp[0] is not doc.header:
                    return [(pre + name + "/header-first", "doc.header", type(allp[0]).__name__)], "differs"
                fs, ls = list(doc.all_files_paragraphs()), list(doc.all_license_paragraphs())
                if [id(x) for x in fs] != [id(x) for x in allp[1:] if isinstance(x, C.FilesParagraph)] or len(fs) != sum(1 for q in seq if q[0] == "F"):
                    return [(pre + name + "/all_files_paragraphs", [q[1] for q in seq if q[0] == "F"], [tuple(x.files) for x in fs])], "differs"
                if [id(x) for x in ls] != [id(x) for x in allp[1:] if isinstance(x, C.LicenseParagraph)] or len(ls) != sum(1 for q in seq if q[0] == "L"):
                    return [(pre + name + "/all_license_paragraphs", [q[1] for q in seq if q[0] == "L"], [tuple(x.license) for x in ls])], "differs"
                # read in another order, twice: licence paragraphs first, files last
                got = [("L", ("license-synopsis", x.license.synopsis), ("license-text", x.license.text)) for x in ls]
                got = [("F", ("files", tuple(x.files)), ("copyright", x.copyright), ("license-synopsis", x.license.synopsis),
                        ("license-text", x.license.text)) for x in fs] + got
                if sorted(got) != sorted(want[1:]) or describe(C, doc) != want:
                    return [(pre + name + "/values", want, got)], "differs"
            return [], "route:" + route
        if route == "read/mapping-access":
            for name, doc in (("built", ref), ("parsed", ref_doc2)):
                for o, q in zip(list(doc.all_paragraphs())[1:], seq):
                    lic = q[3] if q[0] == "F" else q[1]
                    exp = ([("Files", " ".join(q[1])), ("Copyright", q[2])] if q[0] == "F" else []) + [("License", raw_licence(lic))]
                    got = [(k, o[k]) for k in o]
                    low = [(k, o[k.lower()]) for k in o]
                    if got != exp or low != exp or len(o) != len(exp):
                        return [(pre + name + "/items", exp, (got, low, len(o)))], "differs"
            return [], "route:" + route
        if route == "dump/per-paragraph":
            for name, doc in (("built", ref), ("parsed", ref_doc2)):
                for how in PARA_DUMPS:
                    got = _para_texts(doc, how)
                    if got != ref_text:
                        return [(pre + name + "/" + how, ref_text, got)], "differs"
                if doc.dump() != ref_text:
                    return [(pre + name + "/document-dump-afterwards", ref_text, doc.dump())], "differs"
            return [], "route:" + route
        if route == "dump/text-file":
            for name, doc in (("built", ref), ("parsed", ref_doc2)):
                raw = io.BytesIO()
                f = io.TextIOWrapper(raw, encoding="utf-8", newline="")
                r = doc.dump(f)
                f.flush()
                if r is not None or raw.getvalue().decode("utf-8") != ref_text:
                    return [(pre + name + "/TextIOWrapper", "None returned, %r written" % (ref_text,),
                             "%r returned, %r written" % (r, raw.getvalue().decode("utf-8", "replace")))], "differs"
                with tempfile.TemporaryFile("w+", encoding="utf-8", newline="") as t:
                    r = doc.dump(f=t)
                    t.seek(0)
                    got = t.read()
                if r is not None or got != ref_text:
                    return [(pre + name + "/temporary-file", "None returned, %r written" % (ref_text,), "%r returned, %r written" % (r, got))], "differs"
                if doc.dump() != ref_text or doc.dump(None) != ref_text:
                    return [(pre + name + "/dump-afterwards", ref_text, doc.dump())], "differs"
            return [], "route:" + route
        if route in ("parse/non-strict", "parse/positional-arguments"):
            with _captured_log() as records:
                if route == "parse/non-strict":
                    doc = C.Copyright(ref_text.splitlines(True), strict=False)
                else:
                    doc = C.Copyright(ref_text.splitlines(True), "utf-8", True)
            if records:
                return [(pre + "complains", "no complaint about a well-formed document", records)], "differs"
            return _check_document(C, doc, want, ref_text, pre, "doc"), "route:" + route
        if route == "parse/dump-first":
            doc = C.Copyright(ref_text.splitlines(True), strict=True)
            t1 = doc.dump()
            if t1 != ref_text:
                return [(pre + "dump-before-any-read", ref_text, t1)], "differs"
            bad = _check_document(C, doc, want, ref_text, pre, "doc")
            if not bad and doc.dump() != ref_text:
                bad = [(pre + "third-dump", ref_text, doc.dump())]
            return bad, "route:" + route
        if route == "parse/two-documents":
            # a second document (the placeholder of this one, then this one again) alive and used in between
            ph, pp = _placeholder(header, paras)
            oth_text = _build_default(C, ph, pp).dump()
            a = C.Copyright(ref_text.splitlines(True), strict=True)
            b = C.Copyright(oth_text.splitlines(True), strict=True)
            c = C.Copyright(ref_text.splitlines(True), strict=True)
            for fp in list(b.all_files_paragraphs()) + list(a.all_files_paragraphs()):
                fp.matches("zz/a")
            bad = _check_document(C, b, model_description(ph, pp), oth_text, pre, "other")
            bad = bad or _check_document(C, a, want, ref_text, pre, "first")
            _set_values(C, a, ph, pp)
            bad = bad or _check_document(C, c, want, ref_text, pre, "twin-after-editing-the-first")
            return bad, "route:" + route
        if route == "parse/same-lines-twice":
            lines = ref_text.splitlines(True)
            keep = list(lines)
            a = C.Copyright(lines, strict=True)
            if lines != keep:
                return [(pre + "lines-changed", keep, lines)], "differs"
            b = C.Copyright(lines, strict=True)
            bad = _check_document(C, b, want, ref_text, pre, "second") or _check_document(C, a, want, ref_text, pre, "first")
            if not bad:
                # two documents read from one list of lines are two documents
                ph, pp = _placeholder(header, paras)
                _set_values(C, a, ph, pp)
                bad = _check_document(C, b, want, ref_text, pre, "second-after-editing-the-first")
            return bad, "route:" + route
    except Exception as e:
        return [(pre + "raises/" + type(e).__name__, "no exception", repr(e))], "raises"
    raise AssertionError(route)


class _captured_log(object):
    """records what debian.copyright logs (strict=False reports format problems as warnings)"""

    def __enter__(self):
        self.records = []
        outer = self

        class H(logging.Handler):
            def emit(self, record):
                outer.records.append(record.getMessage())
        self.h = H()
        self.h.setLevel(logging.DEBUG)
        lg = logging.getLogger("debian.copyright")
        self.level = lg.level
        lg.setLevel(logging.DEBUG)
        lg.addHandler(self.h)
        return self.records

    def __exit__(self, *a):
        lg = logging.getLogger("debian.copyright")
        lg.removeHandler(self.h)
        lg.setLevel(self.level)
        return False


def _doc_routes_unit(part, u, seed):
    docs = route_documents(seed, u["group"])
    case = None
    for header, paras in docs:
        part.states += 1
        for route in DOC_ROUTES:
            case = {"part": "doc", "header": header, "paras": paras, "route": route}
            bad, cls = run_route_case(case)
            part.states += 1
            part.transitions += 1
            part.traces += 1
            part.evaluations += 1
            part.outcomes["%s: %s" % (route, "as the ordinary build" if not bad else cls)] += 1
            part.extra["documents via " + route] += 1
            if long_features(case) or _doc_nontrivial(paras):
                part.nontrivial += 1
            for sig, e, o in bad:
                part.violation(sig, case, e, o, rank=6)
            part.max_depth = max(part.max_depth, len(paras))
    part.sample(case)
    return part


CODEC_NONE_CALLS = ["format_multiline(None)", "parse_multiline(None)", "License.from_str(None)"]


def run_codec_none_case(case):
    C = _copyright()
    call = case["call"]
    try:
        got = {"format_multiline(None)": lambda: C.format_multiline(None), "parse_multiline(None)": lambda: C.parse_multiline(None),
               "License.from_str(None)": lambda: C.License.from_str(None)}[call]()
    except Exception as e:
        return [("codec/none/%s-raises" % call, None, repr(e))], "raises"
    if got is not None:
        return [("codec/none/" + call, None, got)], "differs"
    return [], "codec-none"



# ------------------------------------------------------------------------------------------------ beyond the small scope
# COUNT ladders (one otherwise simple input per count n, n = 1..40 and the block-size neighbours up to 5000) for every kind
# of repeatable element the statement quantifies over, and SIZE ladders for the values whose size it leaves open.  A case
# is a compact description ({"part": "ladder", "fam": ..., "n": ..., "arr": ..., "pos": ...}); the input is generated from
# it (ladder_inner) and judged by the codec / document oracle above, the family in front of the signature.

LADDER_NS = list(range(1, 41)) + [63, 64, 65, 100, 127, 128, 129, 255, 256, 257, 999, 1000, 1001, 1025, 2500, 2501, 5000]
SIZE_LS = [997, 998, 999, 1000, 4095, 4096, 4097, 16383, 16384, 16385, 65535, 65536, 65537, 131071, 131072, 131073,
           262143, 262144, 262145]
SIZE_BLOCKS = (16384, 65536)
LADDER_KINDS = ["", "StringIO"]              # how the dumped text of a count-ladder document is handed back to Copyright(...)
SIZE_KINDS = ["", "StringIO", "bytes"]       # ... of a size-ladder document ('' = the list of lines with their newlines)

# family -> (arrangements, positions, largest n in the quick tier)
LADDER_FAMS = {
    "ladder/codec-lines": (["plain", "mixed", "dots"], [None], 5000),
    "ladder/codec-empty-lines": (["run", "scattered", "leading", "between-dots"], [None], 5000),
    "ladder/licence-lines": (["plain", "mixed"], ["F", "L", "H"], 5000),
    "ladder/licence-empty-lines": (["run", "scattered", "leading"], ["F", "L", "H"], 5000),
    "ladder/copyright-lines": (["plain", "with-dot-lines"], ["F"], 5000),
    "ladder/files-patterns": (["distinct", "same", "one-character", "wildcards"], ["F"], 5000),
    "ladder/contacts": (["plain"], ["H"], 5000),
    "ladder/paragraphs": (["files", "licences", "alternating", "licences-then-files", "files-then-licences"], [None], 1025),
}
LADDER_PARAGRAPHS_THOROUGH = [2500, 2501, 5000]
SIZE_FAMS = {
    "size/licence-line": (["filler", "words", "multibyte-at-boundaries", "word-colon-at-boundaries"], ["F", "L", "H"]),
    "size/licence-text": (["newline-at-boundaries", "empty-line-at-boundaries", "lines-of-63"], ["F", "L"]),
    "size/copyright-line": (["filler", "words", "multibyte-at-boundaries", "word-colon-at-boundaries"], ["first", "continuation"]),
    "size/pattern": (["filler", "hyphens", "multibyte-at-boundaries"], ["only", "first", "last"]),
    "size/files-list": (["patterns-of-7", "blank-at-boundaries"], ["F"]),
    "size/synopsis": (["filler", "words", "multibyte-at-boundaries"], ["F", "L"]),
    "size/source": (["filler", "words", "multibyte-at-boundaries"], ["H"]),
}


def ladder_bounds(tier):
    return {"counts": "n = 1..40, 63, 64, 65, 100, 127, 128, 129, 255, 256, 257, 999, 1000, 1001, 1025, 2500, 2501, 5000 (every n, "
                      "no sampling); paragraphs per document: up to 1025 at quick (a 5000-paragraph document takes ~2 s: the adding "
                      "methods are linear), 2500 / 2501 / 5000 at thorough",
            "count_families": {f: {"arrangements": v[0], "positions": v[1]} for f, v in sorted(LADDER_FAMS.items())},
            "count_meaning": {"ladder/codec-lines": "n lines after the first through the codec at its three API levels (plain; every 7th "
                                                    "empty / indented; dot-like lines '..' '.x' '. ' among them)",
                              "ladder/codec-empty-lines": "n EMPTY lines in a text through the codec: one run in the middle, scattered "
                                                          "one by one between plain lines, leading (directly after the first line), "
                                                          "alternating with '..' lines",
                              "ladder/licence-lines": "n text lines in the licence of a Files paragraph (F), a stand-alone License "
                                                      "paragraph (L), the header (H)",
                              "ladder/licence-empty-lines": "n empty lines in such a licence text",
                              "ladder/copyright-lines": "n lines in the Copyright value of a Files paragraph (continuation form; every 5th "
                                                        "' .')",
                              "ladder/files-patterns": "n patterns in one Files field",
                              "ladder/contacts": "n Upstream-Contact entries",
                              "ladder/paragraphs": "n paragraphs after the header, all different (Files only, License only, alternating, "
                                                   "all License paragraphs added first, all Files paragraphs added first)"},
            "sizes": "L = %s characters" % (SIZE_LS,),
            "size_families": {f: {"arrangements": v[0], "positions": v[1]} for f, v in sorted(SIZE_FAMS.items())},
            "size_meaning": "one value of exactly L characters: a licence text line, a whole licence text (lines of 64 with the newline - or "
                            "an empty line - exactly at every multiple of 16384 / 65536 and at L-1), a Copyright line (first / continuation), "
                            "one Files pattern (alone, first, last in its list), a whole Files list, a synopsis, the Source value; filler, "
                            "words separated by single blanks, a two-byte / three-byte character or a 'word:' exactly at, just before and just "
                            "after every multiple of 16384 and 65536 inside the value and at its end",
            "input_kinds": "every count-ladder document is re-parsed from %r, every size-ladder document from %r ('' = list of lines "
                           "with newlines)" % (LADDER_KINDS, SIZE_KINDS),
            "judged_by": "the codec oracle (ladder/codec-*) and the document oracle (build, read, dump, strict re-parse, read, second dump) "
                         "of the small scope"}


def _ns(fam, tier):
    top = LADDER_FAMS[fam][2]
    ns = [n for n in LADDER_NS if n <= top]
    if tier == "thorough" and fam == "ladder/paragraphs":
        ns += LADDER_PARAGRAPHS_THOROUGH
    return ns


def ladder_cases(fam, tier, seed):
    a, e = letters(seed)
    out = []
    if fam in LADDER_FAMS:
        arrs, poss, _top = LADDER_FAMS[fam]
        for n in _ns(fam, tier):
            for arr in arrs:
                for pos in poss:
                    for kind in ([""] if "codec" in fam else LADDER_KINDS):
                        out.append({"part": "ladder", "fam": fam, "n": n, "arr": arr, "pos": pos, "kind": kind, "a": a, "e": e})
    else:
        arrs, poss = SIZE_FAMS[fam]
        for n in SIZE_LS:
            for arr in arrs:
                for pos in poss:
                    for kind in SIZE_KINDS:
                        out.append({"part": "ladder", "fam": fam, "n": n, "arr": arr, "pos": pos, "kind": kind, "a": a, "e": e})
    return out


def _marks(L):
    """the positions of interest inside a value of L characters: every multiple of a block size, and the end"""
    m = set()
    for b in SIZE_BLOCKS:
        m.update(range(b, L, b))
    m.add(L - 1)
    return sorted(x for x in m if 2 <= x < L)


def _sized(L, arr, a, e, blank_ok=True):
    """a single-line value of exactly L characters (no leading / trailing blank)"""
    fill = a if a not in "#-" else "x"
    if arr == "filler":
        s = fill * L
    elif arr == "words":
        s = ((fill * 4 + " ") * (L // 5 + 1))[:L - 1] + "z"
    elif arr == "hyphens":
        s = ((fill * 4 + "-") * (L // 5 + 1))[:L - 1] + "z"
    else:
        buf = [fill] * L
        tok = e if arr == "multibyte-at-boundaries" else "word:"
        for m in _marks(L):
            for start in ((m - 1, m, m + 1) if len(tok) == 1 else (m - len(tok), m)):
                if 1 <= start and start + len(tok) <= L - 1:
                    buf[start:start + len(tok)] = list(tok)
        if arr == "multibyte-at-boundaries":
            buf[L - 1] = e
        s = "".join(buf)
    assert len(s) == L and s.strip() == s, (L, arr)
    return s


def _sized_text(L, arr, a):
    """a licence text of exactly L characters made of short lines, a newline (or an empty line) exactly at the marks"""
    fill = a if a not in "#-" else "x"
    if arr == "lines-of-63":
        s = ((fill * 62 + "\n") * (L // 63 + 1))[:L - 1] + "z"
        return s.replace("\n" + "z", fill + "z") if s[-2] == "\n" else s
    buf = list(((fill * 63 + "\n") * (L // 64 + 1))[:L])
    buf[L - 1] = "z"
    for m in _marks(L):
        if m >= L - 1:
            m = L - 2
        for i in range(max(0, m - 3), min(L - 1, m + 4)):
            if buf[i] == "\n":
                buf[i] = fill
        buf[m] = "\n"
        if arr == "empty-line-at-boundaries" and m >= 2:
            buf[m - 1] = "\n"
    s = "".join(buf)
    assert len(s) == L and s[-1] != "\n"
    return s


def _lines_for(fam_tail, n, arr, e):
    """line lists for the codec / licence ladders; the first line is the synopsis"""
    if fam_tail == "lines":
        if arr == "plain":
            return ["S"] + ["line %d" % i for i in range(n)]
        if arr == "mixed":
            return ["S"] + [("" if i % 7 == 3 else "  indented %d" % i if i % 7 == 5 else "line %d %s" % (i, e)) if i < n - 1 else "end"
                            for i in range(n)]
        return ["S"] + [("..", ".x", ". .", "l%d" % i)[i % 4] if i < n - 1 else "end" for i in range(n)]
    if arr == "run":
        return ["S", "first"] + [""] * n + ["last"]
    if arr == "leading":
        return ["S"] + [""] * n + ["last"]
    if arr == "between-dots":
        out = ["S"]
        for i in range(n):
            out += ["", ".."]
        return out
    out = ["S", "l"]
    for i in range(n):
        out += ["", "l%d" % i]
    return out


def ladder_inner(case):
    """-> the codec / document case a ladder case stands for"""
    dpool, headers = doc_pools(0)
    minimal = headers[0]
    before, after = dpool[0], dpool[31]
    fam, n, arr, pos, a, e = case["fam"], case["n"], case["arr"], case["pos"], case["a"], case["e"]

    def with_licence(lic):
        if pos == "F":
            return {"part": "doc", "header": minimal, "paras": [["F", ["*"], "2020 A", lic], after]}
        if pos == "L":
            return {"part": "doc", "header": minimal, "paras": [before, ["L", lic]]}
        return {"part": "doc", "header": dict(minimal, license=lic), "paras": [before]}

    if fam in ("ladder/codec-lines", "ladder/codec-empty-lines"):
        return {"part": "codec", "lines": _lines_for(fam.split("-", 1)[1], n, arr, e)}
    if fam in ("ladder/licence-lines", "ladder/licence-empty-lines"):
        lines = _lines_for(fam.split("-", 1)[1], n, arr, e)
        return with_licence([lines[0], "\n".join(lines[1:])])
    if fam == "ladder/copyright-lines":
        lines = ["%d Holder %d %s" % (1990 + i % 40, i, e) if (arr == "plain" or i % 5 != 3 or i == n - 1) else "." for i in range(n)]
        return {"part": "doc", "header": minimal, "paras": [["F", ["*"], "\n ".join(lines), ["GPL-2+", ""]], after]}
    if fam == "ladder/files-patterns":
        if arr == "distinct":
            files = ["d%d/*" % i for i in range(n)]
        elif arr == "same":
            files = ["src/*"] * n
        elif arr == "one-character":
            files = ["abcdefghijklmnopqrstuvwxyz0123456789"[i % 36] for i in range(n)]
        else:
            files = [("*", "?", "\\*", "a?b*", "*.c")[i % 5] for i in range(n)]
        return {"part": "doc", "header": minimal, "paras": [before, ["F", files, "2020 A", ["GPL-2+", ""]], after]}
    if fam == "ladder/contacts":
        return {"part": "doc", "header": dict(minimal, contact=["C%d <c%d@example.org>" % (i, i) for i in range(n)]), "paras": [before]}
    if fam == "ladder/paragraphs":
        def fp(i):
            return ["F", ["d%d/*" % i], "%d H%d" % (1990 + i % 40, i), ["L%d" % (i % 9), ""]]

        def lp(i):
            return ["L", ["L%d" % i, "text %d\n\nmore %s" % (i, e)]]
        if arr == "files":
            paras = [fp(i) for i in range(n)]
        elif arr == "licences":
            paras = [lp(i) for i in range(n)]
        elif arr == "alternating":
            paras = [fp(i) if i % 2 == 0 else lp(i) for i in range(n)]
        elif arr == "licences-then-files":
            paras = [lp(i) for i in range(n // 2)] + [fp(i) for i in range(n // 2, n)]
        else:
            paras = [fp(i) for i in range(n - n // 2)] + [lp(i) for i in range(n - n // 2, n)]
        return {"part": "doc", "header": minimal, "paras": paras}
    # sizes
    if fam == "size/licence-line":
        return with_licence(["X", "short\n" + _sized(n, arr, a, e) + "\n\nend"])
    if fam == "size/licence-text":
        return with_licence(["X", _sized_text(n, arr, a)])
    if fam == "size/copyright-line":
        v = _sized(n, arr, a, e)
        cp = v if pos == "first" else "2020 A\n " + v + "\n 2021 B"
        return {"part": "doc", "header": minimal, "paras": [["F", ["*"], cp, ["GPL-2+", ""]], after]}
    if fam == "size/pattern":
        v = _sized(n, arr, a, e)
        files = [v] if pos == "only" else [v, "*", "b"] if pos == "first" else ["*", "b", v]
        return {"part": "doc", "header": minimal, "paras": [["F", files, "2020 A", ["GPL-2+", ""]], after]}
    if fam == "size/files-list":
        if arr == "patterns-of-7":
            joined = (("ab/cd/* ") * (n // 8 + 1))[:n - 1] + "z"
            joined = joined.replace(" z", "zz")
        else:
            buf = ["q"] * n
            for m in _marks(n):
                if 1 <= m < n - 1 and buf[m - 1] != " ":
                    buf[m] = " "
            joined = "".join(buf)
        assert len(joined) == n
        return {"part": "doc", "header": minimal, "paras": [["F", joined.split(" "), "2020 A", ["GPL-2+", ""]], after]}
    if fam == "size/synopsis":
        return with_licence([_sized(n, arr, a, e), "text\n\nend"])
    if fam == "size/source":
        return {"part": "doc", "header": dict(minimal, source=_sized(n, arr, a, e)), "paras": [before]}
    raise AssertionError(fam)


def _with_kind(case, inner):
    if inner["part"] == "doc" and case.get("kind"):
        inner["kind"] = case["kind"]
    return inner


def _n_class(n):
    return "n<=3" if n <= 3 else "n<=40" if n <= 40 else "n<=257" if n <= 257 else "n<=1025" if n <= 1025 else "n>=2500"


def run_ladder_case(case):
    inner = _with_kind(case, ladder_inner(case))
    if inner["part"] == "codec":
        bad, cls = run_codec_case(inner)
        cls = cls.split("/")[0]
    else:
        bad, cls = run_doc_case(inner)
        cls = "doc" if cls.startswith("doc:") else cls
    pre = case["fam"] + "/"
    return [(pre + b[0] if not b[0].startswith("codec/") or not pre.startswith("ladder/codec") else pre + b[0][6:],) + tuple(b[1:])
            for b in bad], cls


def _ladder_unit(part, u, tier, seed):
    cases = ladder_cases(u["fam"], tier, seed)
    size = u["fam"].startswith("size/")
    for case in cases:
        bad, cls = run_ladder_case(case)
        part.states += 1
        part.transitions += 1
        part.traces += 1
        part.evaluations += 1
        part.outcomes["%s %s %s: %s" % (u["fam"], case["arr"], "L" if size else _n_class(case["n"]), cls)] += 1
        part.extra[("values of a size ladder" if size else "inputs of a count ladder")] += 1
        if case["n"] >= 4:
            part.nontrivial += 1
        for sig, e, o in bad:
            part.violation(sig, case, e, o, rank=case["n"])
        part.max_depth = max(part.max_depth, case["n"] if not size else 3)
    part.sample(cases[len(cases) // 3])
    return part


# ------------------------------------------------------------------------------------------------ units

def units(tier, seed):
    out = []
    n = _codec_n(tier)
    pool = codec_pool(seed, tier)
    out.append({"part": "codec", "pool": pool, "prefix": None, "n": 1})          # lengths 0..1
    split = 1 if tier == "quick" else 2
    for pre in itertools.product(range(len(pool)), repeat=split):
        out.append({"part": "codec", "pool": pool, "prefix": list(pre), "n": n})  # lengths 2..n with this prefix
    if tier == "thorough":
        core_pool = [pool[i] for i in CODEC_CORE]
        for pre in itertools.product(range(len(core_pool)), repeat=2):
            out.append({"part": "codec", "pool": core_pool, "prefix": list(pre), "n": CODEC_CORE_N, "min": n + 1})
    sc = sweep_chars()
    for i in range(0, len(sc), SWEEP_CHUNK):
        out.append({"part": "codec-sweep", "chars": sc[i:i + SWEEP_CHUNK]})
    dpool, headers = doc_pools(seed)
    out.append({"part": "doc", "pool": dpool, "headers": headers, "hidx": list(range(len(headers))), "first": None})
    hsel = [0, len(headers) - 1] if tier == "quick" else list(range(len(headers)))
    for h in hsel:
        for first in range(len(dpool)):
            out.append({"part": "doc", "pool": dpool, "headers": headers, "hidx": [h], "first": first})
    if tier == "thorough":
        for h in HEADERS_LEN4:
            for first in range(len(dpool)):
                for second in range(len(dpool)):
                    out.append({"part": "doc", "pool": dpool, "headers": headers, "hidx": [h], "first": first, "second": second})
    out += [{"part": "doc-long", "group": g} for g in LONG_GROUPS]
    if tier == "thorough":
        out += [{"part": "doc-long", "group": g} for g in LONG_GROUPS_THOROUGH]
    out += [{"part": "doc-kinds", "group": g} for g in KIND_GROUPS]
    out += [{"part": "doc-routes", "group": ["header", h]} for h in range(len(headers))]
    out += [{"part": "doc-routes", "group": ["pair", i]} for i in range(len(dpool))]
    out += [{"part": "doc-routes", "group": g} for g in ROUTE_GROUPS]
    out.append({"part": "doc-order"})
    out += [{"part": "ladder", "fam": f} for f in sorted(LADDER_FAMS)]
    out += [{"part": "ladder", "fam": f} for f in sorted(SIZE_FAMS)]
    return out


def unit_cost(u, tier):
    if u["part"] == "ladder":
        return 3000 * 600 if u["fam"] == "ladder/paragraphs" else 1500 * 600
    if u["part"] == "doc-long":
        return 400 * 600
    if u["part"] == "doc-kinds":
        return 70 * 11 * 600
    if u["part"] == "doc-routes":
        return 36 * 15 * 1500
    if u["part"] == "doc-order":
        return 60 * 4 * 1500
    if u["part"] == "codec-sweep":
        return len(u["chars"]) * 5 * 12
    if u["part"] == "codec":
        if u["prefix"] is None:
            return 11 * 10
        return (len(u["pool"]) ** (u["n"] - len(u["prefix"]))) * 12
    if u["first"] is None:
        return len(u["hidx"]) * 36 * 450
    return (1225 if "second" in u else 1261) * 450


# ------------------------------------------------------------------------------------------------ real side

_mod = []


def _copyright():
    if not _mod:
        from debian import copyright as C
        logging.getLogger("debian.copyright").addHandler(logging.NullHandler())
        _mod.append(C)
    return _mod[0]


# ------------------------------------------------------------------------------------------------ codec

def in_domain(lines):
    """The statement's precondition: no line is white-space-only (non-empty) or a lone '.'."""
    for l in lines:
        if l == ".":
            return False
        if l != "" and l.strip() == "":
            return False
    return True


def _first_line_only(lines):
    """Outside the statement's domain only because of the FIRST line (which the codec never touches)."""
    return not in_domain(lines) and in_domain(lines[1:])


def run_codec_case(case):
    """-> (violations, outcome class)."""
    C = _copyright()
    lines = list(case["lines"])
    dom = in_domain(lines)
    bad = []
    try:
        enc = C.format_multiline_lines(list(lines))
    except Exception as e:
        if dom:
            return [("codec/lines/format-raises/" + type(e).__name__, "encoded text", repr(e))], "raises"
        return [], "outside-domain/format-raises"
    try:
        dec = C.parse_multiline_as_lines(enc)
    except Exception as e:
        if dom:
            return [("codec/lines/parse-raises/" + type(e).__name__, lines, "%r on %r" % (e, enc))], "raises"
        return [], "outside-domain/parse-raises"
    want = [] if lines == [""] else lines
    if not dom:
        tag = "first-line" if _first_line_only(lines) else "later-line"
        return [], "outside-domain/%s/%s" % (tag, "round-trips" if dec == want else "collapses")
    if dec != want:
        return [("codec/lines/" + _codec_kind(want, dec), want, "%r (encoded as %r)" % (dec, enc))], "differs"
    # the same law one level up: texts, and License objects
    if lines and (lines[-1] != "" or len(lines) == 1):
        if lines[-1] != "":
            s = "\n".join(lines)
            try:
                back = C.parse_multiline(C.format_multiline(s))
            except Exception as e:
                back = "raises %r" % (e,)
            if not isinstance(back, str):
                back = "raises: returned %r" % (back,)
            if back != s:
                bad.append(("codec/text/" + (_codec_kind(s.split("\n"), back.split("\n"))
                                             if not back.startswith("raises ") else "raises"), s, back))
        if "\n" not in lines[0]:
            try:
                lic = C.License(lines[0], "\n".join(lines[1:]))
                back = C.License.from_str(lic.to_str())
                got = (back.synopsis, back.text)
            except Exception as e:
                got = "raises %r" % (e,)
            want_l = (lines[0], "\n".join(lines[1:]))
            if got != want_l:
                bad.append(("codec/license/" + ("raises" if isinstance(got, str) else
                                                "synopsis" if got[0] != want_l[0] else "text"), want_l, got))
    return bad, "round-trips/" + _shape(lines)


def _codec_kind(want, got):
    if len(want) != len(got):
        return "line-count"
    for w, g in zip(want, got):
        if w != g:
            if w == "":
                return "empty-line"
            if w.lstrip(" \t") != w:
                return "indented-line"
            if w.startswith("."):
                return "dot-line"
            return "plain-line"
    return "other"


def _shape(lines):
    tags = set()
    for i, l in enumerate(lines):
        if i == 0:
            continue
        if l == "":
            tags.add("empty")
        elif l[0] in " \t":
            tags.add("indent")
        elif l[0] == ".":
            tags.add("dot")
        elif l != l.rstrip():
            tags.add("trail")
        else:
            tags.add("plain")
    return "%d:%s" % (min(len(lines), 2), "+".join(sorted(tags)) or "-")


def _codec_nontrivial(lines):
    return len(lines) >= 2 and in_domain(lines) and any(l == "" or l[0] in " \t." for l in lines[1:])


def _codec_unit(part, u):
    pool = u["pool"]
    if u["prefix"] is None:
        lists = [[]] + [[s] for s in pool]
        part.states += 1
        for call in CODEC_NONE_CALLS:          # "no value" passes through every level of the codec
            case = {"part": "codec-none", "call": call}
            bad, cls = run_codec_none_case(case)
            part.traces += 1
            part.evaluations += 1
            part.outcomes["codec:" + cls] += 1
            for sig, e, o in bad:
                part.violation(sig, case, e, o)
    else:
        pre = [pool[i] for i in u["prefix"]]
        lists = []
        for k in range(max(0, u.get("min", 2) - len(pre)), u["n"] - len(pre) + 1):
            for t in itertools.product(pool, repeat=k):
                lists.append(pre + list(t))
    for lines in lists:
        case = {"part": "codec", "lines": lines}
        bad, cls = run_codec_case(case)
        if lines:
            part.states += 1
            part.transitions += 1
        part.traces += 1
        part.evaluations += 1
        part.outcomes["codec:" + cls] += 1
        if _codec_nontrivial(lines):
            part.nontrivial += 1
        for sig, e, o in bad:
            part.violation(sig, case, e, o)
        part.max_depth = max(part.max_depth, len(lines))
    part.sample({"part": "codec", "lines": lists[len(lists) // 2]})
    part.sample({"part": "codec", "lines": lists[-1]})
    return part


# ------------------------------------------------------------------------------------------------ documents

def model_sequence(paras):
    """Documented insertion rule: Files directly after the last Files paragraph, License at the end."""
    seq = []
    for p in paras:
        if p[0] == "F":
            last = -1
            for i, q in enumerate(seq):
                if q[0] == "F":
                    last = i
            seq.insert(last + 1, p)
        else:
            seq.append(p)
    return seq


def model_description(header, paras):
    out = [("H", ("format", FORMAT), ("upstream_name", header["name"]), ("source", header["source"]),
            ("upstream_contact", tuple(header["contact"] or ())),
            ("license", tuple(header["license"]) if header["license"] else None))]
    for p in model_sequence(paras):
        if p[0] == "F":
            out.append(("F", ("files", tuple(p[1])), ("copyright", p[2]), ("license-synopsis", p[3][0]),
                        ("license-text", p[3][1])))
        else:
            out.append(("L", ("license-synopsis", p[1][0]), ("license-text", p[1][1])))
    return out


def describe(C, doc):
    out = []
    for p in doc.all_paragraphs():
        if isinstance(p, C.Header):
            lic = p.license
            out.append(("H", ("format", p.format), ("upstream_name", p.upstream_name), ("source", p.source),
                        ("upstream_contact", tuple(p.upstream_contact)),
                        ("license", (lic.synopsis, lic.text) if lic is not None else None)))
        elif isinstance(p, C.FilesParagraph):
            lic = p.license
            out.append(("F", ("files", tuple(p.files)), ("copyright", p.copyright),
                        ("license-synopsis", lic.synopsis if lic is not None else None),
                        ("license-text", lic.text if lic is not None else None)))
        elif isinstance(p, C.LicenseParagraph):
            lic = p.license
            out.append(("L", ("license-synopsis", lic.synopsis if lic is not None else None),
                        ("license-text", lic.text if lic is not None else None)))
        else:
            out.append(("?", type(p).__name__))
    return out


def _first_difference(want, got):
    """-> (signature tail, expected, observed) for two descriptions that differ."""
    if [p[0] for p in want] != [p[0] for p in got]:
        return "sequence", [p[0] for p in want], [p[0] for p in got]
    for i, (w, g) in enumerate(zip(want, got)):
        for wf, gf in zip(w[1:], g[1:]):
            if wf != gf:
                kind = {"H": "header", "F": "files", "L": "license"}[w[0]]
                return "%s.%s" % (kind, wf[0]), "paragraph %d: %r" % (i, wf[1]), "%r" % (gf[1],)
    return "other", want, got


def run_doc_case(case):
    """-> (violations, outcome class)."""
    bad, cls = _run_doc_case(case)
    if case.get("weak"):
        bad = [("weak-domain/" + b[0],) + tuple(b[1:]) for b in bad]
    return bad, cls


def _run_doc_case(case):
    C = _copyright()
    header, paras = case["header"], case["paras"]
    if case.get("weak"):
        # weak domain: a licence text with white-space-only lines reads back with these lines EMPTY (everything else as given)
        want = model_description(dict(header, license=_weak_licence(header["license"])),
                                 [[p[0], p[1], p[2], _weak_licence(p[3])] if p[0] == "F" else [p[0], _weak_licence(p[1])] for p in paras])
    else:
        want = model_description(header, paras)
    try:
        doc = C.Copyright()
        if header["name"] is not None:
            doc.header.upstream_name = header["name"]
        if header["source"] is not None:
            doc.header.source = header["source"]
        if header["contact"] is not None:
            doc.header.upstream_contact = list(header["contact"])
        if header["license"] is not None:
            doc.header.license = C.License(header["license"][0], header["license"][1])
        for p in paras:
            if p[0] == "F":
                doc.add_files_paragraph(C.FilesParagraph.create(list(p[1]), p[2], C.License(p[3][0], p[3][1])))
            else:
                doc.add_license_paragraph(C.LicenseParagraph.create(C.License(p[1][0], p[1][1])))
        built = _weak_description(describe(C, doc)) if case.get("weak") else describe(C, doc)
    except Exception as e:
        return [("doc/build-raises/" + type(e).__name__, "document built", repr(e))], "raises"
    if built != want:
        d = _first_difference(want, built)
        return [("doc/build/" + d[0], d[1], d[2])], "differs"
    try:
        text = doc.dump()
    except Exception as e:
        return [("doc/dump-raises/" + type(e).__name__, "text", repr(e))], "raises"
    if not isinstance(text, str):
        return [("doc/dump-type", "str", type(text).__name__)], "differs"
    kind = case.get("kind", "")
    pre = "in-%s/" % kind if kind else ""       # a failure that needs one input kind is a different bug
    try:
        doc2 = parse_doc(C, text, kind)
        again = _weak_description(describe(C, doc2)) if case.get("weak") else describe(C, doc2)
    except Exception as e:
        return [(pre + "doc/reparse-raises/" + type(e).__name__, "strict parse of %r succeeds" % (text,), repr(e))], "raises"
    if again != want:
        d = _first_difference(want, again)
        return [(pre + "doc/reparse/" + d[0], d[1], "%s  (dump: %r)" % (d[2], text))], "differs"
    try:
        text2 = doc2.dump()
    except Exception as e:
        return [(pre + "doc/redump-raises/" + type(e).__name__, "text", repr(e))], "raises"
    if text2 != text:
        return [(pre + "doc/redump", text, text2)], "differs"
    if kind:
        f = io.StringIO()
        try:
            r = doc2.dump(f=f)
        except Exception as e:
            return [(pre + "doc/redump-to-file-raises/" + type(e).__name__, "text written", repr(e))], "raises"
        if r is not None or f.getvalue() != text:
            return [(pre + "doc/redump-to-file", "None returned, %r written" % (text,), "%r returned, %r written" % (r, f.getvalue()))], "differs"
    kinds = "".join(p[0] for p in model_sequence(paras))
    return [], "doc:H" + kinds


# ---- documents whose text has the paragraphs in an order the adding methods never produce (a stand-alone License
# paragraph ahead of a Files paragraph): parsed, then dumped / extended and dumped

ORDER_ADDS = [None, "F", "L", "FL"]


def order_sequences(seed):
    """all sequences of 2..3 paragraphs over two Files and two License paragraphs in which some License paragraph precedes
    a Files paragraph"""
    dpool, _headers = doc_pools(seed)
    f1, f2 = dpool[0], dpool[7]
    l1, l2 = dpool[31], dpool[32]
    assert f1[0] == f2[0] == "F" and l1[0] == l2[0] == "L" and f1 != f2 and l1 != l2
    four = [f1, f2, l1, l2]
    out = []
    for n in (2, 3):
        for seq in itertools.product(range(4), repeat=n):
            kinds = "".join(four[i][0] for i in seq)
            if "LF" in kinds or kinds in ("LFL", "LLF", "FLF") or ("L" in kinds and kinds.rfind("F") > kinds.find("L")):
                out.append([four[i] for i in seq])
    return out


def _para_desc(p):
    if p[0] == "F":
        return ("F", ("files", tuple(p[1])), ("copyright", p[2]), ("license-synopsis", p[3][0]), ("license-text", p[3][1]))
    return ("L", ("license-synopsis", p[1][0]), ("license-text", p[1][1]))


def run_order_case(case):
    """-> (violations, outcome class)"""
    C = _copyright()
    header, paras, add = case["header"], case["paras"], case.get("add")

    def mk(p):
        if p[0] == "F":
            return C.FilesParagraph.create(list(p[1]), p[2], C.License(p[3][0], p[3][1]))
        return C.LicenseParagraph.create(C.License(p[1][0], p[1][1]))
    try:
        d0 = C.Copyright()
        if header["name"] is not None:
            d0.header.upstream_name = header["name"]
        text = "\n".join([d0.header.dump()] + [mk(p).dump() for p in paras])
    except Exception as e:
        return [("doc/order/write-raises/" + type(e).__name__, "paragraph texts", repr(e))], "raises"
    want = [model_description(header, [])[0]] + [_para_desc(p) for p in paras]
    try:
        doc = C.Copyright(text.splitlines(True), strict=True)
        got = describe(C, doc)
    except Exception as e:
        return [("doc/order/parse-raises/" + type(e).__name__, "strict parse of %r succeeds" % (text,), repr(e))], "raises"
    if got != want:
        d = _first_difference(want, got)
        return [("doc/order/parse/" + d[0], d[1], "%s  (text: %r)" % (d[2], text))], "differs"
    # extending the parsed document: a Files paragraph goes directly after the last Files paragraph, a License paragraph
    # to the end (docstrings of the adding methods)
    seq = list(paras)
    newf = ["F", ["new/*"], "2024 N", ["N", ""]]
    newl = ["L", ["NL", "new text"]]
    try:
        for a in add or "":
            if a == "F":
                last = max(i for i, q in enumerate(seq) if q[0] == "F") if any(q[0] == "F" for q in seq) else -1
                seq.insert(last + 1, newf)
                doc.add_files_paragraph(mk(newf))
            else:
                seq.append(newl)
                doc.add_license_paragraph(mk(newl))
        got = describe(C, doc)
    except Exception as e:
        return [("doc/order/add-raises/" + type(e).__name__, "paragraph added", repr(e))], "raises"
    want = [want[0]] + [_para_desc(p) for p in seq]
    if got != want:
        d = _first_difference(want, got)
        return [("doc/order/add/" + d[0], d[1], d[2])], "differs"
    try:
        out = doc.dump()
        again = describe(C, C.Copyright(out.splitlines(True), strict=True))
    except Exception as e:
        return [("doc/order/dump-or-reparse-raises/" + type(e).__name__, "dump of the parsed document re-parses", repr(e))], "raises"
    if again != want:
        d = _first_difference(want, again)
        return [("doc/order/reparse/" + d[0], d[1], "%s  (dump: %r)" % (d[2], out))], "differs"
    if not add and out != text:
        return [("doc/order/dump-text", text, out)], "differs"
    return [], "doc-order:H" + "".join(p[0] for p in seq)


def _doc_order_unit(part, u, seed):
    _dpool, headers = doc_pools(seed)
    header = headers[0]
    for paras in order_sequences(seed):
        part.states += 1
        for add in ORDER_ADDS:
            case = {"part": "doc-order", "header": header, "paras": paras, "add": add}
            bad, cls = run_order_case(case)
            part.transitions += len(paras) + len(add or "")
            part.traces += 1
            part.evaluations += 3
            part.nontrivial += 1
            part.outcomes[cls if not bad else "VIOLATION:" + bad[0][0]] += 1
            for sig, exp, obs in bad:
                part.violation(sig, case, exp, obs, rank=len(paras) * 10 + len(add or ""))
            part.extra["parsed documents with a License paragraph ahead of a Files paragraph"] += 1
    part.max_depth = 5
    part.sample(case)
    return part


# ---- the documented ways of handing text to Copyright(...)

DOC_KINDS = ["lines-nonl", "tuple-lines", "generator", "generator-nonl", "StringIO", "textfile", "str", "bytes", "bytes-lines",
             "BytesIO", "bytes-lines-other-encoding", "BytesIO-other-encoding"]
OTHER_ENCODINGS = ["latin-1", "iso-8859-5", "euc-jp"]
KIND_GROUPS = ["single", "pairs", "long"]


def other_encoding(text):
    for enc in OTHER_ENCODINGS:
        try:
            text.encode(enc)
            return enc
        except UnicodeEncodeError:
            pass
    raise AssertionError("no 8-bit encoding for %r" % (text,))


def _generate(lines):
    for line in lines:
        yield line


def parse_doc(C, text, kind):
    """Copyright(...) of a document text handed over in the given way ('' = the list of lines with newlines)"""
    if kind == "":
        return C.Copyright(text.splitlines(True), strict=True)
    if kind == "lines-nonl":
        return C.Copyright(text.split("\n")[:-1], strict=True)
    if kind == "tuple-lines":
        return C.Copyright(tuple(text.splitlines(True)), strict=True)
    if kind == "generator":
        return C.Copyright(_generate(text.splitlines(True)), strict=True)
    if kind == "generator-nonl":
        return C.Copyright(_generate(text.split("\n")[:-1]), strict=True)
    if kind == "StringIO":
        return C.Copyright(io.StringIO(text), strict=True)
    if kind == "textfile":
        return C.Copyright(io.TextIOWrapper(io.BytesIO(text.encode("utf-8")), encoding="utf-8", newline=""), strict=True)
    if kind == "str":
        return C.Copyright(text, strict=True)
    if kind == "bytes":
        return C.Copyright(text.encode("utf-8"), encoding="utf-8", strict=True)
    if kind == "bytes-lines":
        return C.Copyright(text.encode("utf-8").splitlines(True), encoding="utf-8", strict=True)
    if kind == "BytesIO":
        return C.Copyright(io.BytesIO(text.encode("utf-8")), encoding="utf-8", strict=True)
    if kind == "bytes-lines-other-encoding":
        enc = other_encoding(text)
        return C.Copyright(text.encode(enc).splitlines(True), encoding=enc, strict=True)
    if kind == "BytesIO-other-encoding":
        enc = other_encoding(text)
        return C.Copyright(io.BytesIO(text.encode(enc)), enc, True)
    raise AssertionError(kind)


def kind_documents(seed, group):
    """-> the (header, paragraph list) documents of one group of the input-kind part"""
    dpool, headers = doc_pools(seed)
    out = []
    if group == "single":
        for h in (headers[0], headers[-1]):
            out += [(h, [])] + [(h, [p]) for p in dpool]
    elif group == "pairs":
        out += [(headers[0], [dpool[i], dpool[(7 * i + 3) % len(dpool)]]) for i in range(len(dpool))]
    else:
        out += [(c["header"], c["paras"]) for c in long_cases(seed, "texts")]
        out += [(c["header"], c["paras"]) for c in long_cases(seed, "files-hyphen9")[210:240:3]]
    return out


def _doc_kinds_unit(part, u, seed):
    docs = kind_documents(seed, u["group"])
    case = None
    for header, paras in docs:
        part.states += 1
        for kind in DOC_KINDS:
            case = {"part": "doc", "header": header, "paras": paras, "kind": kind}
            bad, cls = run_doc_case(case)
            part.states += 1
            part.transitions += 1
            part.traces += 1
            part.evaluations += 1
            part.outcomes["read as %s: %s" % (kind, "as built" if not bad else cls)] += 1
            part.extra["documents read as " + kind] += 1
            if long_features(case) or _doc_nontrivial(paras):
                part.nontrivial += 1
            for sig, e, o in bad:
                part.violation(sig, case, e, o, rank=5)
            part.max_depth = max(part.max_depth, len(paras))
    part.sample(case)
    return part


def _weak_text(t):
    return "\n".join("" if (l and l.strip(" \t") == "") else l for l in t.split("\n"))


def _weak_licence(lic):
    if not lic:
        return lic
    return [lic[0], _weak_text(lic[1])]


def _weak_description(desc):
    """an observed description with the white-space-only lines of its licence texts emptied: in the weak domain a reader that
    keeps such a line and one that returns it empty are both right"""
    out = []
    for p in desc:
        q = []
        for f in p:
            if isinstance(f, tuple) and f[0] == "license-text" and isinstance(f[1], str):
                f = (f[0], _weak_text(f[1]))
            elif isinstance(f, tuple) and f[0] == "license" and f[1] is not None and isinstance(f[1][1], str):
                f = (f[0], (f[1][0], _weak_text(f[1][1])))
            q.append(f)
        out.append(tuple(q))
    return out


def _doc_nontrivial(paras):
    if len(paras) >= 2 and len(set(p[0] for p in paras)) == 2:
        return True
    for p in paras:
        text = p[3][1] if p[0] == "F" else p[1][1]
        if any(l == "" or l[0] in " \t." for l in text.split("\n")[1:]) or (text and text[0] in " \t."):
            return True
    return False


def _doc_unit(part, u):
    pool, headers = u["pool"], u["headers"]
    if u["first"] is None:
        seqs = [[]] + [[i] for i in range(len(pool))]
        part.states += 1
    elif "second" in u:
        f, g = u["first"], u["second"]
        seqs = [[f, g, j, k] for j in range(len(pool)) for k in range(len(pool))]
    else:
        f = u["first"]
        seqs = [[f, j] for j in range(len(pool))] + [[f, j, k] for j in range(len(pool)) for k in range(len(pool))]
    last = None
    for hi in u["hidx"]:
        for seq in seqs:
            case = {"part": "doc", "header": headers[hi], "paras": [pool[i] for i in seq]}
            bad, cls = run_doc_case(case)
            if seq:
                part.states += 1
                part.transitions += 1
            part.traces += 1
            part.evaluations += 1
            part.outcomes[cls] += 1
            if _doc_nontrivial(case["paras"]):
                part.nontrivial += 1
            for sig, e, o in bad:
                part.violation(sig, case, e, o)
            part.max_depth = max(part.max_depth, len(seq))
            last = case
    part.sample(last)
    return part


def run_unit(u, tier, seed):
    part = core.Part()
    if u["part"] == "codec":
        return _codec_unit(part, u)
    if u["part"] == "codec-sweep":
        return _codec_sweep_unit(part, u)
    if u["part"] == "doc-long":
        return _doc_long_unit(part, u, seed)
    if u["part"] == "doc-kinds":
        return _doc_kinds_unit(part, u, seed)
    if u["part"] == "doc-routes":
        return _doc_routes_unit(part, u, seed)
    if u["part"] == "doc-order":
        return _doc_order_unit(part, u, seed)
    if u["part"] == "ladder":
        return _ladder_unit(part, u, tier, seed)
    return _doc_unit(part, u)


# ------------------------------------------------------------------------------------------------ replay

def replay(case):
    if case.get("part") == "ladder":
        return run_ladder_case(case)[0]
    if case.get("part") == "codec":
        return run_codec_case(case)[0]
    if case.get("part") == "codec-none":
        return run_codec_none_case(case)[0]
    if case.get("part") == "doc-order":
        return run_order_case(case)[0]
    if case.get("part") == "doc" and case.get("route"):
        return run_route_case(case)[0]
    if case.get("part") == "doc":
        return run_doc_case(case)[0]
    raise ValueError("unknown case %r" % (case,))


def repro_py(case):
    if case.get("part") == "codec":
        return ("from debian import copyright as C\nlines = %r\n"
                "assert C.parse_multiline_as_lines(C.format_multiline_lines(list(lines))) == lines\n"
                % (case["lines"],))
    return "from mc.props import c17\ncase = %r\nassert c17.replay(case) == [], c17.replay(case)\n" % (case,)
