"""C19 - update_file converges to the published content and never corrupts the local file (Engine C).

A run = (history v0..vn published as Packages.gz + Packages.diff/Index + one gzip'd ed script per step,
         local start state, fault set).
Fault points of the file system are *discovered* by a recording dry run of the same (history, start): every
open-for-writing, every write call, every rename the call performs is numbered; the run is then repeated once per
fault point (deviation bound 1) and, in the thorough tier, per pair {repository fault, file-system fault}
(deviation bound 2).  Repository-side faults are enumerated from the published structure.
Interception is done inside the harness process by shadowing the names `open` and `os` in the module namespace of
debian.debian_support (no source hook); tempfile.tempdir points at a harness-owned directory so that a leaked
download temp file is visible.

Routes ("the other way in"), on a sub-family of the histories, every start state, judged by the same model: the call made
with verbose=True (output captured), through the deprecated alias updateFile with keyword arguments, the full download
called directly (download_file / downloadFile); the index laid out differently (unknown extra fields, the three fields in
another order, two paragraphs); the repository served over HTTP by a loopback server instead of file://; and a second
call after every successful one (the local file is current and has to stay so, nothing left behind).

Beyond the small scope (bounds()["beyond_the_small_scope"]): histories of 16-20 and 33 versions with a repository fault at EVERY
position from EVERY start state (the local file must keep its old content or reach the published one, never an intermediate
one), a ladder over the chain length (2..41 ... 258 versions) and over the lines per file (1..40 ... 5000), and files / patches
of more than 64 KiB compressed made of 64-byte lines with 2-, 3- and 4-byte characters aligned so that every 8 KiB / 64 KiB
boundary of the byte stream falls on a line end, a newline or inside a character.  Signatures start with chain/, ladder/ or size/;
the inputs are regenerated from the compact description in the case.
"""
import builtins
import contextlib
import functools
import io
import re
import threading
import warnings
import gzip
import hashlib
import itertools
import os
import shutil
import tempfile

from .. import core
from ..models import edscript

ID = "C19"
LEVEL = "fault_enumeration"
RULE = ("cases = (history of published versions, local start state, fault set) with fault points discovered by a "
        "recording dry run; every case is executed on the real update_file against a file:// repository in a fresh "
        "directory; non-trivial = distinct cases in which a fault actually fired or the patch chain was used; routes: "
        "the same cases with another entry point / index layout / transport, one trace per call made (a second call "
        "after a success counts as a trace of its own)")
BUDGET = {"quick": 240, "thorough": 3000}


def bounds(tier):
    return {"versions_per_history": "2..3, and 4 over a 3-list core (recurring contents)" if tier == "quick" else "2..4",
            "lines_per_version": "<= 2 over {a,b,c}" if tier == "quick" else "<= 3 (<= 2 for 3-4 version histories)",
            "start_states": "each vi, current, foreign, absent",
            "fault_bound": 1 if tier == "quick" else 2,
            "routes": {"histories": "%d: all 2- and 3-version histories over the first three line lists, the long file, the "
                                    "line-separator and the terminator look-alike histories%s"
                                    % (len(route_histories(tier, 0)), "" if tier == "quick" else
                                       ", all 2-version histories over the first seven lists, the 4-version ones over the first three"),
                       "start_states": "each vi, current, foreign, absent",
                       "entries": "update_file(remote, local, True) and updateFile(remote=, local=, verbose=False): every "
                                  "repository fault, and every file-system fault point of the fault-free repository; "
                                  "download_file and downloadFile(remote=, local=) called directly from v0 / foreign / absent: "
                                  "no fault, full file missing, every file-system fault point",
                       "index_layouts": "%r x repository faults {none, wrongcurrent, garble 0, idx-unparsable-tail}" % LAYOUTS[1:],
                       "transport": "http:// (loopback ThreadingHTTPServer) for %s x {none, noidx, nofull}"
                                    % ("the 2-version and the special histories" if tier == "quick" else "every route history"),
                       "second_call": "after every successful call of the routes family that had no repository fault or an "
                                      "unusable index: the same call again"},
            "hash": "SHA1 (SHA256 configuration explored only when the interpreter provides _sha256)",
            "beyond_the_small_scope": {
                "thinned out in the quick tier": "none" if tier != "quick" else (
                    "long chains: a garbled patch at every position from EVERY start state; a missing / truncated / text-garbled "
                    "patch from starts {0, the fault's position, last but one}; index faults from {0, middle, current, foreign, "
                    "absent}.  Chain-length ladder: {no fault, last patch garbled, no full file}, above 66 versions from start 0 only, without "
                    "64, 128, 256 and 258 versions.  Big "
                    "files: repository faults {none, no index, no full file, patch 0 garbled / truncated, patch 1 missing}, "
                    "file-system faults from starts 0 and absent.  Lines ladder above 1025 lines: {no fault, no full file}"),
                "long chains": "histories of %r versions (each step one small edit: change / append / delete first / insert at top): "
                               "EVERY start state (each vi, foreign, absent) x {no fault, every index fault, a garbled and a missing "
                               "patch at EVERY position, a truncated / text-garbled patch at positions 0, 14, 15, 16 and the last}; "
                               "every discovered file-system fault point from starts 0, 1, the middle and the last but one" % CHAIN_FULL,
                "chain-length ladder": "every number of versions in 2..41 and %r: starts {0, middle, last but one} x {no fault, the last "
                                       "patch garbled / missing, the middle patch garbled, no full file}; open / close / rename faults from start 0"
                                       % [n for n in CHAIN_LADDER if n > 41],
                "lines-per-file ladder": "files of every n in 1..40 and %r lines, 4 versions (last line changed + one appended, first "
                                         "line deleted, middle line changed): starts {each vi, absent} x {no fault, patch 0 garbled, patch "
                                         "2 truncated, no index, no full file (so that only the patches can lead to the content)}; open / first write / last write / close / rename faults from start 0"
                                         % [n for n in LINES_LADDER if n > 40],
                "big files": "4 versions of %d lines of 64 UTF-8 bytes (hexadecimal text + one 2-, 3- or 4-byte character + newline; "
                             "the full file is ~115 KiB and the first patch ~105 KiB *compressed*), the first line prolonged by "
                             "each of %r bytes so that every 8 KiB and 64 KiB boundary of the byte stream falls at the line end, on "
                             "the newline, inside the multi-byte character or in front of it; every start state x {no fault, no "
                             "index, no full file, wrong Current, each patch garbled / truncated / missing}; file-system faults from "
                             "starts 0, 2 and absent: open, close, rename and the writes number %r and the last two" % (
                                 BIG_LINES, BIG_SHIFTS, BIG_WRITE_POINTS)}}


def assumptions():
    return ["an index that parses but lacks a field (semantically short) is checked for safety only",
            "a missing patch / missing full file is checked for safety only",
            "unlink failures are not injected (no clean-up can be promised then)",
            "file:// transport (and http:// from a loopback server in the routes family); urllib, http.server and gzip are "
            "trusted", "download_file called directly is the statement's 'full download' on its own: it has to leave the "
            "published content in the local file and return it, or raise with the local file as it was and nothing left "
            "behind; a missing full file is checked for safety only",
            "index layouts: fields the function does not know are ignored, the order of the fields and a split into "
            "several paragraphs do not matter (the function loops over all paragraphs and fields); an index that carries "
            "SHA256 fields as well cannot be used on this interpreter (no _sha256) and is not generated",
            "beyond the small scope: the long-chain and big-file inputs are generated from a compact description in the case "
            "(number of versions, line set, shift); the scripts of the big files are written directly from the hunks (an LCS "
            "diff of 3200-line files is not needed to know them) and validated by the model's ed interpreter; the same safety / "
            "convergence judgement as in the small scope applies; of the ~3200 write fault points of a big file a fixed set "
            "around the 64 KiB multiples and the ends is injected (stated in bounds) - every other family is complete",
            "left out: a pathlib.Path as local (documented as str; local + '.new' raises TypeError, local intact), a stale "
            "local.new present before the call (the up-to-date path does not touch it; the statement speaks of files the "
            "call creates)", "python 3.12 has no _sha256: the module's own "
            "new_sha256 raises NotImplementedError by design, so SHA256 indexes are skipped here"]


# ---------------------------------------------------------------- published repository (model side)

def sha1(lines):
    return hashlib.sha1("".join(lines).encode("utf-8")).hexdigest()


def sha256(lines):
    return hashlib.sha256("".join(lines).encode("utf-8")).hexdigest()


def gz(path, text):
    with gzip.open(path, "wt", encoding="utf-8") as f:
        f.write(text)


LAYOUTS = ["plain", "extra-fields", "reordered", "two-paragraphs"]


def layout_index(layout, f_cur, f_hist, f_pat):
    """the same index information in another legitimate arrangement of the control-file paragraph(s)"""
    if layout == "extra-fields":
        # what real archives publish next to the three fields (ignored by update_file)
        return ("Canonical-Path: dists/sid/main/binary-amd64/Packages\n" + f_cur + f_hist +
                "X-Unmerged-SHA1-History:\n 0 0 none\n" + f_pat + "X-Unmerged-SHA1-Patches:\n 0 0 none\n" +
                "X-Patch-Precedence: merged\n" +
                # real indexes also list the compressed patches; a SHA1 index may carry such a field of the other family
                ("SHA256-Download:\n " + "0" * 64 + " 1 patch000.gz\n" if f_cur.startswith("SHA1-") else
                 "SHA1-Download:\n " + "0" * 40 + " 1 patch000.gz\n"))
    if layout == "reordered":
        return f_pat + f_hist + f_cur
    if layout == "two-paragraphs":
        return f_cur + "\n" + f_hist + f_pat
    return f_cur + f_hist + f_pat


def mkrepo(d, versions, rfault, algo, layout="plain", scripts=None):
    H = sha1 if algo == "SHA1" else sha256
    cur = versions[-1]
    if rfault != ("nofull",):
        gz(os.path.join(d, "Packages.gz"), "".join(cur))
    os.mkdir(os.path.join(d, "Packages.diff"))
    hist, pat = [], []
    for i in range(len(versions) - 1):
        s = scripts[i] if scripts else edscript.diff(versions[i], versions[i + 1])
        name = "p%d" % i
        body = "".join(s)
        if rfault == ("garble", i):
            body = body.replace("\n", "X\n", 1) if body else "1d\n"
        if rfault == ("truncate", i):
            body = body[:max(0, len(body) // 2)]
        if rfault == ("garble-text", i):
            # a text line of the script changed: still a well-formed script, wrong content
            lines = body.splitlines(True)
            for k, l in enumerate(lines):
                if l in ("a\n", "b\n", "c\n"):
                    lines[k] = "z\n"
                    break
            else:
                lines.append("1d\n")
            body = "".join(lines)
        if rfault != ("nopatch", i):
            gz(os.path.join(d, "Packages.diff", name + ".gz"), body)
        hist.append(" %s %d %s\n" % (H(versions[i]), len("".join(versions[i])), name))
        pat.append(" %s %d %s\n" % (H(s), len("".join(s)), name))
    curhash = H(cur) if rfault != ("wrongcurrent",) else H(cur + ["zz\n"])
    f_cur = "%s-Current: %s %d\n" % (algo, curhash, len("".join(cur)))
    f_hist = "%s-History:\n" % algo + "".join(hist)
    f_pat = "%s-Patches:\n" % algo + "".join(pat)
    idx = layout_index(layout, f_cur, f_hist, f_pat)
    if rfault == ("idx-unparsable",):
        idx = "!!! not a field\n" + idx
    if rfault == ("idx-unparsable-tail",):
        idx = idx + "!!! not a field\n"
    if rfault == ("idx-nocurrent",):
        idx = f_hist + f_pat
    if rfault == ("idx-nopatches",):
        idx = f_cur + f_hist
    if rfault == ("idx-nohistory",):
        idx = f_cur + f_pat
    if rfault == ("idx-empty",):
        idx = ""
    if rfault != ("noidx",):
        with open(os.path.join(d, "Packages.diff", "Index"), "w", encoding="utf-8") as f:
            f.write(idx)


def repo_faults(nver):
    out = [("noidx",), ("idx-unparsable",), ("idx-unparsable-tail",), ("idx-nocurrent",), ("idx-nopatches",),
           ("idx-nohistory",), ("idx-empty",), ("wrongcurrent",), ("nofull",)]
    for i in range(nver - 1):
        out += [("garble", i), ("truncate", i), ("garble-text", i), ("nopatch", i)]
    return out


# ---------------------------------------------------------------- file-system recorder / fault injector

class Env(object):
    """counts fault points; fails the one(s) listed in `fail`"""

    def __init__(self, fail=()):
        self.fail = set(fail)
        self.n = {"open-w": 0, "write": 0, "close-w": 0, "rename": 0}
        self.fired = []
        self.log = []

    def point(self, kind, what=""):
        k = self.n[kind]
        self.n[kind] += 1
        self.log.append((kind, k))
        if (kind, k) in self.fail:
            self.fired.append((kind, k))
            raise OSError(28, "injected fault at %s#%d %s" % (kind, k, what))


class WFile(object):
    def __init__(self, f, env):
        self._f, self._env = f, env

    def write(self, s):
        self._env.point("write")
        return self._f.write(s)

    def __enter__(self):
        return self

    def __exit__(self, *a):
        try:
            if a[0] is None:
                self._env.point("close-w")
        finally:
            self._f.__exit__(*a)
        return False

    def __getattr__(self, name):
        return getattr(self._f, name)


class OsProxy(object):
    def __init__(self, env):
        self._env = env

    def rename(self, a, b):
        self._env.point("rename")
        return os.rename(a, b)

    def __getattr__(self, name):
        return getattr(os, name)


SCRATCH = "/dev/shm" if os.path.isdir("/dev/shm") and os.access("/dev/shm", os.W_OK) else None


_HTTP = {}


def http_base():
    """a loopback HTTP server (one per worker process, started on first use) that serves the scratch root"""
    import http.server
    if _HTTP.get("pid") != os.getpid():
        root = SCRATCH or tempfile.gettempdir()

        class Quiet(http.server.SimpleHTTPRequestHandler):
            def log_message(self, *a):
                pass
        srv = http.server.ThreadingHTTPServer(("127.0.0.1", 0), functools.partial(Quiet, directory=root))
        srv.daemon_threads = True
        threading.Thread(target=srv.serve_forever, daemon=True).start()
        _HTTP.update(pid=os.getpid(), srv=srv, root=root, base="http://127.0.0.1:%d" % srv.server_address[1])
    return _HTTP["base"], _HTTP["root"]


class Repo(object):
    """a published repository in a scratch directory (update_file never writes to it)"""

    def __init__(self, versions, rfault, algo, layout="plain", scripts=None):
        self.dir = tempfile.mkdtemp(prefix="verif-c19r-", dir=SCRATCH)
        mkrepo(self.dir, versions, rfault, algo, layout, scripts)

    def url(self, transport):
        if transport == "http":
            base, root = http_base()
            return base + "/" + os.path.relpath(os.path.join(self.dir, "Packages"), root)
        return "file://" + os.path.join(self.dir, "Packages")

    def close(self):
        shutil.rmtree(self.dir, ignore_errors=True)


ENTRIES = ["update_file", "verbose", "alias", "download_file", "downloadFile"]


def call_entry(ds, entry, url, local):
    """the same update through another public entry point"""
    if entry == "update_file":
        return ds.update_file(url, local)
    if entry == "verbose":
        with contextlib.redirect_stdout(io.StringIO()):
            return ds.update_file(url, local, True)
    with warnings.catch_warnings():
        warnings.simplefilter("ignore")
        if entry == "alias":
            return ds.updateFile(remote=url, local=local, verbose=False)
        if entry == "download_file":
            return ds.download_file(url, local)
        if entry == "downloadFile":
            return ds.downloadFile(remote=url, local=local)
    raise KeyError(entry)


def read_local(path):
    with open(path, encoding="utf-8", newline="") as f:      # no newline translation: the bytes that are there
        return f.read()


def execute(versions, start, rfault, fsfail, algo="SHA1", repo_obj=None, entry="update_file", layout="plain",
            transport="file", again=False, scripts=None):
    """-> dict(exc, result, before, after, leftovers, tmp_leftovers, env)"""
    import debian.debian_support as ds
    d = tempfile.mkdtemp(prefix="verif-c19-", dir=SCRATCH)
    old_tmp = tempfile.tempdir
    env = Env(fsfail)
    own = None
    try:
        work = os.path.join(d, "work")
        tmpd = os.path.join(d, "tmp")
        for x in (work, tmpd):
            os.mkdir(x)
        if repo_obj is None:
            own = repo_obj = Repo(versions, rfault, algo, layout, scripts)
        url = repo_obj.url(transport)
        local = os.path.join(work, "local")
        if start != "absent":
            content = "zzz\n" if start == "foreign" else "".join(versions[start])
            with open(local, "w", encoding="utf-8") as f:
                f.write(content)
        before = read_local(local) if start != "absent" else None

        def fopen(name, mode="r", *a, **k):
            if "w" in mode or "a" in mode or "+" in mode:
                env.point("open-w", str(name)[-6:])
                return WFile(builtins.open(name, mode, *a, **k), env)
            return builtins.open(name, mode, *a, **k)

        tempfile.tempdir = tmpd
        ds.open = fopen
        ds.os = OsProxy(env)
        try:
            try:
                r = call_entry(ds, entry, url, local)
                exc = None
            except Exception as e:
                r, exc = None, e
        finally:
            del ds.open
            ds.os = os
            tempfile.tempdir = old_tmp
        after = read_local(local) if os.path.exists(local) else None
        res = {"exc": exc, "result": r, "before": before, "after": after,
               "leftovers": sorted(os.listdir(work)), "tmp_leftovers": sorted(os.listdir(tmpd)), "env": env}
        if (exc is not None and env.fired and rfault is None) or (again and exc is None):
            # the fault was transient: the same call again, on the same directory, without any fault
            # (again: a second call after a successful one - the local file is current now and has to stay as it is)
            tempfile.tempdir = tmpd
            try:
                try:
                    r2 = call_entry(ds, entry, url, local)
                    exc2 = None
                except Exception as e:
                    r2, exc2 = None, e
            finally:
                tempfile.tempdir = old_tmp
            after2 = read_local(local) if os.path.exists(local) else None
            res["retry" if exc is not None else "again"] = {
                "exc": exc2, "result": r2, "after": after2, "leftovers": sorted(os.listdir(work)),
                "tmp_leftovers": sorted(os.listdir(tmpd))}
        return res
    finally:
        tempfile.tempdir = old_tmp
        shutil.rmtree(d, ignore_errors=True)
        if own is not None:
            own.close()


# ---------------------------------------------------------------- expectations (model)

def path_taken(versions, start, rfault):
    """what the statement prescribes: 'uptodate' | ('patch', i) | 'full'"""
    cur = versions[-1]
    if start == "absent":
        return "full"
    if rfault in (("noidx",), ("idx-unparsable",), ("idx-unparsable-tail",), ("idx-empty",)):
        return "full"
    local = ["zzz\n"] if start == "foreign" else versions[start]
    if local == cur and rfault != ("wrongcurrent",):
        return "uptodate"
    for i in range(len(versions) - 1):
        if versions[i] == local:
            return ("patch", i)
    return "full"


def scrub(text):
    """scratch directory and temp-file names differ between runs; observations must not"""
    text = re.sub(r"/[^ '\"]*verif-c19r?-[A-Za-z0-9_]+", "<scratch>", str(text))
    return re.sub(r"tmp[A-Za-z0-9_]{6,10}", "tmp<random>", text)


def judge(versions, start, rfault, fsfail, res, entry="update_file"):
    """-> list of (sig, expected, observed)"""
    return [(s_, scrub(e_), scrub(o_)) for s_, e_, o_ in _judge(versions, start, rfault, fsfail, res, entry)]


UNUSABLE_INDEX = (("noidx",), ("idx-unparsable",), ("idx-unparsable-tail",))


def _judge(versions, start, rfault, fsfail, res, entry="update_file"):
    cur = versions[-1]
    download = entry in ("download_file", "downloadFile")
    if download:
        assert rfault in (None, ("nofull",)), rfault
    exc, env = res["exc"], res["env"]
    bad = []
    fname = rfault[0] if rfault else "none"
    ftag = "%s+%s" % (fname, fsfail[0][0] if fsfail else "none")
    # safety
    if exc is None:
        if res["result"] != cur or res["after"] != "".join(cur):
            bad.append(("update/unsafe-return/" + ftag, "returns %r and local file holds it" % (cur,),
                        "returned %r, local %r" % (res["result"], res["after"])))
    else:
        if res["after"] != res["before"]:
            bad.append(("update/local-changed-on-error/" + ftag, "local file unchanged (%r) when %s is raised" % (
                res["before"], type(exc).__name__), "local %r" % (res["after"],)))
    want_left = ["local"] if res["after"] is not None else []
    if res["leftovers"] != want_left:
        bad.append(("update/leftover-file/" + ftag, want_left, res["leftovers"]))
    if res["tmp_leftovers"]:
        bad.append(("update/leftover-tempfile/" + ftag, "no file left in the temp directory",
                    "%d file(s) left" % len(res["tmp_leftovers"])))
    if bad:
        return bad
    # liveness / must-raise
    path = "full" if download else path_taken(versions, start, rfault)
    fired = bool(env.fired)
    semantically_short = rfault in (("idx-nocurrent",), ("idx-nopatches",), ("idx-nohistory",))
    must_converge = (not fired) and (
        rfault is None or rfault in (("noidx",), ("idx-unparsable",), ("idx-unparsable-tail",), ("idx-empty",))
        or (rfault[0] in ("garble", "truncate", "garble-text", "nopatch") and
            (path in ("uptodate", "full") or (path[0] == "patch" and rfault[1] < path[1])))
        or (rfault == ("nofull",) and path != "full")
        or (rfault == ("wrongcurrent",) and path == "full"))
    if rfault is not None and rfault[0] == "idx-empty":
        must_converge = False      # an empty index document: "unusable" is not spelled out for it; safety only
    must_raise = fired or (
        rfault is not None and path not in ("uptodate", "full") and (
            (rfault[0] in ("garble", "truncate", "garble-text") and rfault[1] >= path[1]) or rfault == ("wrongcurrent",)))
    if semantically_short:
        must_converge = must_raise = False
    if must_converge and exc is not None:
        bad.append(("update/no-convergence/%s/%s" % (ftag, type(exc).__name__),
                    "returns the published content (path %r)" % (path,), "%s: %s" % (type(exc).__name__, exc)))
    if must_raise and exc is None:
        bad.append(("update/error-swallowed/" + ftag, "an error (fault fired: %r, path %r)" % (env.fired, path),
                    "returned normally"))
    ag = res.get("again")
    if ag is not None and not bad and (rfault is None or rfault in UNUSABLE_INDEX):
        # a second call after a successful one: the local file is current, stays current, nothing is left behind
        if ag["exc"] is not None:
            bad.append(("update/second-call/raises/" + ftag, "the second call returns the current content",
                        "%s: %s" % (type(ag["exc"]).__name__, ag["exc"])))
        elif ag["result"] != cur or ag["after"] != "".join(cur):
            bad.append(("update/second-call/wrong-content/" + ftag, cur, (ag["result"], ag["after"])))
        elif ag["leftovers"] != ["local"] or ag["tmp_leftovers"]:
            bad.append(("update/second-call/leftovers/" + ftag, ["local"], (ag["leftovers"], len(ag["tmp_leftovers"]))))
    rt = res.get("retry")
    if rt is not None and not bad:
        if rt["exc"] is not None:
            bad.append(("update/retry-after-fault/raises/" + ftag, "the fault-free retry converges",
                        "%s: %s" % (type(rt["exc"]).__name__, rt["exc"])))
        elif rt["result"] != cur or rt["after"] != "".join(cur):
            bad.append(("update/retry-after-fault/wrong-content/" + ftag, cur, (rt["result"], rt["after"])))
        elif rt["leftovers"] != ["local"] or rt["tmp_leftovers"]:
            bad.append(("update/retry-after-fault/leftovers/" + ftag, ["local"], (rt["leftovers"], len(rt["tmp_leftovers"]))))
    return bad


def route_tag(case):
    """'' for the plain route, else 'via-<what differs>/'"""
    parts = [case[k] for k, dflt in (("entry", "update_file"), ("layout", "plain"), ("transport", "file")) if case.get(k, dflt) != dflt]
    return "via-%s/" % "+".join(parts) if parts else ""


def run_case(case, repo_obj=None):
    versions, scripts = expand(case)
    rf = tuple(case["rfault"]) if case["rfault"] else None
    fs = [tuple(x) for x in case["fsfail"]]
    entry = case.get("entry", "update_file")
    res = execute(versions, case["start"], rf, fs, case.get("algo", "SHA1"), repo_obj, entry, case.get("layout", "plain"),
                  case.get("transport", "file"), case.get("again", False), scripts)
    # an injected fault the run never reached is simply a fault-free run; judge() handles it via env.fired
    tag = route_tag(case)
    if case.get("scale"):
        tag = {"chain": "chain/", "ladder": "ladder/chain-length/", "big": "size/", "lines": "ladder/lines-per-file/"}[case["scale"]] + tag
    return [(tag + sig, e, o) for sig, e, o in judge(versions, case["start"], rf, fs, res, entry)], res


# ---------------------------------------------------------------- units

LINES = ["a\n", "b\n", "c\n"]


def LINESET(seed):
    return [LINES, ["x y\n", "b\n", "é\n"], ["Package: a\n", "b\n", " c\n"], ["1\n", "22\n", "333\n"]][seed % 4]


def all_lists(maxlen, seed):
    L = LINES
    if seed % 4 == 1:
        L = ["x y\n", "b\n", "é\n"]
    elif seed % 4 == 2:
        L = ["Package: a\n", "b\n", " c\n"]
    elif seed % 4 == 3:
        L = ["1\n", "22\n", "333\n"]
    return [list(t) for n in range(0, maxlen + 1) for t in itertools.product(L, repeat=n)]


def special_histories(seed):
    out = []
    # one long file (two-digit ed addresses): edits at lines 9-12 and at the top
    L = [LINESET(seed)[0].replace("\n", "%d\n" % i) for i in range(1, 13)]
    out.append([L, L[:8] + ["x\n"] + L[9:], L[:8] + ["x\n"] + L[9:11], ["y\n"] + L[:8] + ["x\n"] + L[9:11]])
    # lines containing characters on which str.splitlines (but not a file's line iteration) would split
    U = ["a\u2028b\n", "c\x0cd\n", "e\x85f\n", "g\x1ch\n", "z\n"]
    out += [[U[:2] + [U[4]], U[:3] + [U[4]], U[:3] + ["y\n"]],
            [[U[4]], [U[0], U[4]], [U[0], "y\n"], [U[0], U[3], "y\n"]],
            [[U[1], U[4]], [U[1], U[2], U[4]], [U[1], U[2], "y\n", U[4]]]]
    # lines that merely resemble the "." ending an ed text block (" ." is the empty line of a Description)
    D = [" .\n", ". \n", "..\n", "\t.\n", "z\n"]
    out += [[[D[4]], [D[0], D[4]], [D[0], "y\n", D[4]]],
            [[D[4]], [D[4], D[1], "y\n"], [D[2], D[4], D[1], "y\n"]],
            [["y\n", D[4]], ["y\n", D[3], D[0], D[4]], ["y\n", D[3], D[0], "w\n"]]]
    return out


def histories(tier, seed):
    l2 = all_lists(2, seed)
    out = [[a, b] for a in l2 for b in l2 if a != b]
    core7 = l2[:7]
    out += [[a, b, c] for a in core7 for b in core7 for c in core7 if a != b and b != c]
    out += special_histories(seed)
    core3 = l2[:3]
    out += [[a, b, c, e] for a in core3 for b in core3 for c in core3 for e in core3
            if a != b and b != c and c != e]
    if tier == "thorough":
        l3 = all_lists(3, seed)
        out += [[a, b] for a in l3 for b in l3 if a != b and (len(a) == 3 or len(b) == 3)]
        rest = [x for x in l2 if x not in core7]
        out += [[a, b, c] for a in l2 for b in l2 for c in l2 if a != b and b != c
                and (a in rest or b in rest or c in rest)]
        core4 = l2[:4]
        out += [[a, b, c, e] for a in core4 for b in core4 for c in core4 for e in core4
                if a != b and b != c and c != e and not (a in core3 and b in core3 and c in core3 and e in core3)]
    return out


def route_histories(tier, seed):
    """histories of the routes family: every 2- and 3-version history over the first three line lists, the long file,
    the line-separator and terminator look-alike histories (thorough: also every 2-version history over the first seven
    lists and the 4-version ones over the first three)"""
    l2 = all_lists(2, seed)
    core3 = l2[:3]
    out = [[a, b] for a in core3 for b in core3 if a != b]
    out += special_histories(seed)
    out += [[a, b, c] for a in core3 for b in core3 for c in core3 if a != b and b != c]
    if tier != "quick":
        core7 = l2[:7]
        out += [[a, b] for a in core7 for b in core7 if a != b and not (a in core3 and b in core3)]
        out += [[a, b, c, e] for a in core3 for b in core3 for c in core3 for e in core3 if a != b and b != c and c != e]
    return out


HTTP_HISTORIES = {"quick": 13, "thorough": 10 ** 6}     # the first k route histories (quick: the 2-version and the special
                                                        # ones) also go over HTTP


def units(tier, seed):
    hs = histories(tier, seed)
    step = 8
    out = [{"lo": i, "hi": min(i + step, len(hs))} for i in range(0, len(hs), step)]
    out += [{"kind": "routes", "h": i} for i in range(len(route_histories(tier, seed)))]
    out += scale_units(tier, seed)
    return out


def unit_cost(u, tier):
    if u.get("kind") == "scale":
        return 60 if u["scale"] != "ladder" else 30
    return 5 if u.get("kind") == "routes" else 8


def route_plan(versions, hi, tier):
    """-> [(route settings, repository faults, start states, inject file-system faults?)] for one history"""
    n = len(versions)
    starts = list(range(n)) + ["foreign", "absent"]
    plan = []
    for entry in ("verbose", "alias"):
        plan.append(({"entry": entry}, [None] + repo_faults(n), starts, True))
    for layout in LAYOUTS[1:]:
        plan.append(({"layout": layout}, [None, ("wrongcurrent",), ("garble", 0), ("idx-unparsable-tail",)], starts, False))
    for entry in ("download_file", "downloadFile"):
        plan.append(({"entry": entry}, [None, ("nofull",)], [0, "foreign", "absent"], True))
    if hi < HTTP_HISTORIES[tier]:
        plan.append(({"transport": "http"}, [None, ("noidx",), ("nofull",)], starts, False))
    return plan


def run_route_unit(u, tier, seed):
    part = core.Part()
    versions = route_histories(tier, seed)[u["h"]]
    for algo in algos():
        for settings, rfaults, starts, fsfaults in route_plan(versions, u["h"], tier):
            tag = route_tag(settings)
            for rf in rfaults:
                repo_obj = Repo(versions, rf, algo, settings.get("layout", "plain"))
                try:
                    for start in starts:
                        base = dict(settings, versions=versions, start=start, algo=algo, rfault=rf,
                                    again=rf is None or rf in UNUSABLE_INDEX)
                        case = dict(base, fsfail=[])
                        bad, res = run_case(case, repo_obj)
                        part.evaluations += 1
                        part.traces += 2 if "again" in res else 1
                        part.states += 1
                        for sig, exp, obs in bad:
                            part.violation(sig, case, exp, obs, rank=len(versions) * 10 + (0 if rf is None else 1) + 5)
                        part.outcomes["%s%s/%s" % (tag, rf[0] if rf else "none", type(res["exc"]).__name__ if res["exc"] else "ok")] += 1
                        part.nontrivial += 1
                        if rf is not None or not fsfaults:
                            continue
                        for pt in list(res["env"].log):
                            c2 = dict(base, fsfail=[pt], again=False)
                            bad2, res2 = run_case(c2, repo_obj)
                            part.evaluations += 1
                            part.traces += 2 if "retry" in res2 else 1
                            part.transitions += 1
                            for sig, exp, obs in bad2:
                                part.violation(sig, c2, exp, obs, rank=len(versions) * 10 + 7)
                            if not res2["env"].fired:
                                raise AssertionError("fault point %r discovered by the dry run was not reached: %r" % (pt, c2))
                            part.nontrivial += 1
                            part.outcomes["%sfs:%s/%s" % (tag, pt[0], type(res2["exc"]).__name__ if res2["exc"] else "ok")] += 1
                finally:
                    repo_obj.close()
    part.transitions += part.states
    part.sample(case)
    return part


def algos():
    import debian.debian_support as ds
    out = ["SHA1"]
    try:
        ds.read_lines_sha256([])
        out.append("SHA256")
    except NotImplementedError:
        pass
    return out


def run_unit(u, tier, seed):
    if u.get("kind") == "routes":
        return run_route_unit(u, tier, seed)
    if u.get("kind") == "scale":
        return run_scale_unit(u, tier, seed)
    part = core.Part()
    hs = histories(tier, seed)[u["lo"]:u["hi"]]
    bound = 1 if tier == "quick" else 2
    for algo in algos():
        for versions in hs:
            starts = list(range(len(versions))) + ["foreign", "absent"]
            for rf in [None] + repo_faults(len(versions)):
                repo_obj = Repo(versions, rf, algo)
                try:
                    for start in starts:
                        base = {"versions": versions, "start": start, "algo": algo}
                        # dry run: records the fault points of this (history, start, repository fault)
                        case = dict(base, rfault=rf, fsfail=[])
                        bad, res = run_case(case, repo_obj)
                        part.evaluations += 1
                        part.traces += 1
                        part.states += 1
                        for sig, exp, obs in bad:
                            part.violation(sig, case, exp, obs, rank=len(versions) * 10 + (0 if rf is None else 1))
                        path = path_taken(versions, start, rf)
                        part.outcomes["%s/%s/%s" % (rf[0] if rf else "none", path if isinstance(path, str) else "patch",
                                                    type(res["exc"]).__name__ if res["exc"] else "ok")] += 1
                        if rf is not None or path not in ("uptodate",):
                            part.nontrivial += 1
                        if rf is not None and bound < 2:
                            continue
                        points = list(res["env"].log)
                        part.extra["fault_points_discovered"] += len(points)
                        for pt in points:
                            c2 = dict(base, rfault=rf, fsfail=[pt])
                            bad2, res2 = run_case(c2, repo_obj)
                            part.evaluations += 1
                            part.traces += 1
                            part.transitions += 1
                            for sig, exp, obs in bad2:
                                part.violation(sig, c2, exp, obs, rank=len(versions) * 10 + 2 + (0 if rf is None else 1))
                            if res2["env"].fired:
                                part.nontrivial += 1
                                part.outcomes["fs:%s/%s" % (pt[0], type(res2["exc"]).__name__ if res2["exc"] else "ok")] += 1
                            else:
                                raise AssertionError("fault point %r discovered by the dry run was not reached: %r" % (pt, c2))
                        if len(versions) == 3 and start == 0 and rf == ("garble", 1):
                            part.sample(case)
                finally:
                    repo_obj.close()
    part.transitions += part.states
    return part


# ---------------------------------------------------------------- beyond the small scope: long chains, big files

CHAIN_FULL = [16, 17, 18, 19, 20, 33]           # versions per history; a fault at EVERY position, from EVERY start state
CHAIN_LADDER = list(range(2, 42)) + [64, 65, 66, 101, 128, 129, 130, 256, 257, 258]     # versions = patches + 1
BIG_LINES = 3200                                # 64-byte lines: 204 800 bytes; gzip leaves > 64 KiB of the hexadecimal text
BIG_SHIFTS = [0, 1, 2, 3, 4, 5, 10, 11, 12]      # 10..12: lines of three-byte characters only, shifted by 0, 1, 2 bytes
BIG_WRITE_POINTS = [0, 1, 1022, 1023, 1024, 1025, 2047, 2048, 2049, 3071, 3072, 3073]     # + the last two; 1024 lines = 64 KiB written


LINES_LADDER = list(range(1, 41)) + [63, 64, 65, 100, 127, 128, 129, 255, 256, 257, 999, 1000, 1001, 1025, 2500, 2501, 5000]


def lines_versions(n, ls):
    """files of n lines: v0 -> v1 changes the last line and appends one, v1 -> v2 deletes the first line, v2 -> v3 changes the
    middle line (the addresses have as many digits as n has); scripts written directly from the hunks"""
    a = LINESET(ls)[0][:-1]
    v0 = ["%s%d\n" % (a, i) for i in range(1, n + 1)]
    v1 = v0[:-1] + ["X\n", "Y\n"]
    v2 = v1[1:]
    m = len(v2) // 2
    v3 = v2[:m] + ["M\n"] + v2[m + 1:]
    scripts = [["%dc\n" % n, "X\n", "Y\n", ".\n"], ["1d\n"], ["%dc\n" % (m + 1), "M\n", ".\n"]]
    return [v0, v1, v2, v3], scripts


def chain_versions(n, ls):
    """n versions, each step one small edit of another kind (change in the middle, append at the end, delete the first line,
    insert at the top), every version different from every other"""
    L = LINESET(ls)
    cur = [L[0], L[1], L[2]]
    out = [list(cur)]
    for i in range(1, n):
        kind = i % 4
        if kind == 1:
            cur = cur[:1] + ["v%d\n" % i] + cur[2:]
        elif kind == 2:
            cur = cur + ["w%d\n" % i]
        elif kind == 3:
            cur = cur[1:]
        else:
            cur = ["u%d\n" % i] + cur
        out.append(list(cur))
    return out


def big_line(i, salt):
    """64 bytes of UTF-8: hexadecimal text (does not compress below half), one 2-, 3- or 4-byte character, a newline"""
    ch = "é€\U0001d11e"[(i + i // 1024) % 3]      # lines 1023 / 2047 / 3071 end at 64 / 128 / 192 KiB: 2-, 4- and 3-byte character
    h = hashlib.sha1(b"%d/%d" % (i, salt)).hexdigest() + hashlib.sha1(b"%d/%d/x" % (i, salt)).hexdigest()
    return h[:63 - len(ch.encode("utf-8"))] + ch + "\n"


def dense_line(i, salt):
    """64 bytes of UTF-8: 21 three-byte characters (two digest bytes each, so the text stays > 64 KiB when compressed) and a
    newline - wherever a reader cuts the byte stream, it cuts inside a character unless it hits a multiple of three"""
    d = b"".join(hashlib.sha1(b"%d/%d/%d" % (i, salt, k)).digest() for k in range(3))
    return "".join(chr(0x4E00 + ((d[2 * k] << 8 | d[2 * k + 1]) % 20000)) for k in range(21)) + "\n"


def big_versions(shift, nlines=BIG_LINES):
    if shift >= 10:
        return _big_versions("ab"[:shift - 10], dense_line, nlines)
    return _big_versions("012345"[:shift], big_line, nlines)


def _big_versions(lead, big_line, nlines):
    """-> (versions, scripts): v0 -> v1 replaces most of the file (a patch of > 64 KiB compressed), v1 -> v2 and v2 -> v3 are small
    edits near the top and the end.  The first line is `shift` bytes longer than the others, so that every 8 KiB / 64 KiB
    boundary of the byte stream falls `shift` bytes before the end of a line: at the line end (0), on the newline (1), inside
    the multi-byte character (2-4) or right in front of it."""
    v0 = [lead + big_line(0, 0)] + [big_line(i, 0) for i in range(1, nlines)]
    lo, hi = 100, nlines - 100
    v1 = v0[:lo] + [big_line(i, 1) for i in range(lo, hi + 7)] + v0[hi:]
    v2 = v1[:3] + ["t" * 54 + "é€\U0001d11e\n"] + v1[4:-2] + v1[-1:]
    v3 = v2 + ["end\n"]
    hunks = [[(lo + 1, hi, v1[lo:hi + 7])], [(len(v1) - 1, len(v1) - 1, []), (4, 4, [v2[3]])], [(len(v2) + 1, len(v2), ["end\n"])]]
    scripts = []
    for hs in hunks:
        s = []
        for i, j, rep in hs:                      # already bottom-up
            s.append("%da\n" % j if i > j else ("%d" % i if i == j else "%d,%d" % (i, j)) + ("c\n" if rep else "d\n"))
            if rep:
                s += list(rep) + [".\n"]
        scripts.append(s)
    return [v0, v1, v2, v3], scripts


_EXPANDED = {}


def expand(case):
    """-> (versions, scripts or None) of a case; big inputs are generated from the compact description"""
    sc = case.get("scale")
    if sc is None:
        return [list(v) for v in case["versions"]], None
    key = (sc, case.get("n"), case.get("ls"), case.get("shift"))
    if key not in _EXPANDED:
        _EXPANDED.clear()
        if sc in ("big", "lines"):
            vs, ss = big_versions(case["shift"]) if sc == "big" else lines_versions(case["n"], case["ls"])
            for a, b, s in zip(vs, vs[1:], ss):
                if edscript.apply(a, s) != b:
                    raise AssertionError("model: big script does not produce the next version")
            _EXPANDED[key] = (vs, ss)
        else:
            _EXPANDED[key] = (chain_versions(case["n"], case["ls"]), None)
    return _EXPANDED[key]


def scale_units(tier, seed):
    out = []
    for n in CHAIN_FULL:
        k = 4 if n < 30 else 8
        out += [{"kind": "scale", "scale": "chain", "n": n, "slice": i, "of": k} for i in range(k)]
    out.append({"kind": "scale", "scale": "ladder", "ns": [n for n in CHAIN_LADDER if n <= 41]})
    out.append({"kind": "scale", "scale": "ladder", "ns": [n for n in CHAIN_LADDER if 41 < n <= 130]})
    out += [{"kind": "scale", "scale": "ladder", "ns": [n]} for n in CHAIN_LADDER if n > 130]
    out += [{"kind": "scale", "scale": "big", "shift": s} for s in BIG_SHIFTS]
    out.append({"kind": "scale", "scale": "lines", "ns": [n for n in LINES_LADDER if n <= 129]})
    out.append({"kind": "scale", "scale": "lines", "ns": [n for n in LINES_LADDER if 129 < n <= 1025]})
    out += [{"kind": "scale", "scale": "lines", "ns": [n]} for n in LINES_LADDER if n > 1025]
    return out


def run_scale_unit(u, tier, seed):
    part = core.Part()
    ls = seed % 4

    def one(case, repo_obj, rank, label):
        bad, res = run_case(case, repo_obj)
        part.evaluations += 1
        part.traces += 1
        part.states += 1
        for sig, exp, obs in bad:
            part.violation(sig, case, exp, obs, rank=rank)
        part.outcomes["%s/%s" % (label, type(res["exc"]).__name__ if res["exc"] else "ok")] += 1
        part.nontrivial += 1
        return res

    for algo in algos():
        if u["scale"] == "chain":
            n = u["n"]
            versions = chain_versions(n, ls)
            part.max_depth = n
            rfaults = [None] + repo_faults(n)
            starts = list(range(n)) + ["foreign", "absent"]
            for ri, rf in enumerate(rfaults):
                if ri % u["of"] != u["slice"]:
                    continue
                if rf is not None and rf[0] in ("truncate", "garble-text") and rf[1] not in (0, 14, 15, 16, n - 2):
                    continue        # (garbled and missing patches stand at every position; these two at the ends and around 16)
                repo_obj = Repo(versions, rf, algo)
                try:
                    for start in starts:
                        if tier == "quick" and rf is not None and rf[0] != "garble":
                            # quick: a garbled patch at every position from every start; the other repository faults from
                            # the start states at the ends, at the fault and (index faults) in the middle
                            near = (0, rf[1], n - 2) if len(rf) > 1 else (0, n // 2, n - 1, "foreign", "absent")
                            if start not in near:
                                continue
                        base = {"scale": "chain", "n": n, "ls": ls, "start": start, "algo": algo, "rfault": rf}
                        res = one(dict(base, fsfail=[]), repo_obj, n * 10, "chain-%d/%s" % (n, rf[0] if rf else "none"))
                        part.extra["long chains: runs with a repository fault at a given position"] += 1
                        if rf is None and start in (0, 1, n // 2, n - 2):
                            for pt in list(res["env"].log):
                                c2 = dict(base, fsfail=[pt])
                                res2 = one(c2, repo_obj, n * 10 + 2, "chain-%d/fs:%s" % (n, pt[0]))
                                part.transitions += 1
                                if not res2["env"].fired:
                                    raise AssertionError("fault point %r discovered by the dry run was not reached: %r" % (pt, c2))
                finally:
                    repo_obj.close()
            part.sample({"scale": "chain", "n": n, "ls": ls, "start": 0, "algo": algo, "rfault": ("garble", n - 2), "fsfail": []})
        elif u["scale"] == "lines":
            for n in u["ns"]:
                versions, scripts = lines_versions(n, ls)
                for rf in (None, ("garble", 0), ("truncate", 2), ("noidx",), ("nofull",)):
                    if tier == "quick" and n > 1025 and rf not in (None, ("nofull",)):
                        continue
                    repo_obj = Repo(versions, rf, algo, scripts=scripts)
                    try:
                        for start in (0, 1, 2, 3, "absent"):
                            base = {"scale": "lines", "n": n, "ls": ls, "start": start, "algo": algo, "rfault": rf}
                            res = one(dict(base, fsfail=[]), repo_obj, n, "lines/%s" % (rf[0] if rf else "none"))
                            part.extra["lines-per-file ladder runs"] += 1
                            if rf is None and start == 0:
                                pts = list(res["env"].log)
                                writes = [p for p in pts if p[0] == "write"]
                                for pt in [p for p in pts if p[0] != "write"] + writes[:1] + writes[-1:]:
                                    one(dict(base, fsfail=[pt]), repo_obj, n + 1, "lines/fs:%s" % pt[0])
                                    part.transitions += 1
                    finally:
                        repo_obj.close()
            part.sample({"scale": "lines", "n": u["ns"][-1], "ls": ls, "start": 0, "algo": algo, "rfault": None, "fsfail": []})
        elif u["scale"] == "ladder":
            for n in u["ns"]:
                if tier == "quick" and n in (64, 128, 256, 258):
                    continue
                versions = chain_versions(n, ls)
                part.max_depth = max(part.max_depth, n)
                for rf in (None, ("garble", n - 2), ("nopatch", n - 2), ("garble", (n - 2) // 2), ("nofull",)):
                    if tier == "quick" and rf not in (None, ("garble", n - 2), ("nofull",)):
                        continue
                    repo_obj = Repo(versions, rf, algo)
                    try:
                        for start in sorted({0, (n - 1) // 2, n - 2}):
                            if tier == "quick" and n > 66 and start != 0:
                                continue
                            base = {"scale": "ladder", "n": n, "ls": ls, "start": start, "algo": algo, "rfault": rf}
                            res = one(dict(base, fsfail=[]), repo_obj, n * 10, "ladder/%s" % (rf[0] if rf else "none"))
                            part.extra["chain-length ladder runs"] += 1
                            if rf is None and start == 0:
                                for pt in [p for p in res["env"].log if p[0] in ("open-w", "rename", "close-w")]:
                                    one(dict(base, fsfail=[pt]), repo_obj, n * 10 + 2, "ladder/fs:%s" % pt[0])
                                    part.transitions += 1
                    finally:
                        repo_obj.close()
        else:
            shift = u["shift"]
            versions, scripts = big_versions(shift)
            nv = len(versions)
            part.max_depth = nv
            for rf in [None, ("noidx",), ("nofull",), ("wrongcurrent",)] + [(f, i) for i in range(nv - 1) for f in ("garble", "truncate", "nopatch")]:
                if tier == "quick" and rf not in (None, ("noidx",), ("nofull",), ("garble", 0), ("truncate", 0), ("nopatch", 1)):
                    continue
                repo_obj = Repo(versions, rf, algo, scripts=scripts)
                try:
                    for start in list(range(nv)) + ["foreign", "absent"]:
                        base = {"scale": "big", "shift": shift, "start": start, "algo": algo, "rfault": rf}
                        res = one(dict(base, fsfail=[]), repo_obj, 1000, "big/%s" % (rf[0] if rf else "none"))
                        part.extra["big files: runs"] += 1
                        if rf is None and start in ((0, "absent") if tier == "quick" else (0, 2, "absent")):
                            pts = list(res["env"].log)
                            writes = [p for p in pts if p[0] == "write"]
                            chosen = [p for p in pts if p[0] != "write"] + [p for p in writes if p[1] in BIG_WRITE_POINTS] + writes[-2:]
                            for pt in sorted(set(chosen)):
                                c2 = dict(base, fsfail=[pt])
                                res2 = one(c2, repo_obj, 1002, "big/fs:%s" % pt[0])
                                part.transitions += 1
                                if not res2["env"].fired:
                                    raise AssertionError("fault point %r discovered by the dry run was not reached: %r" % (pt, c2))
                finally:
                    repo_obj.close()
            part.sample({"scale": "big", "shift": shift, "start": 0, "algo": algo, "rfault": None, "fsfail": []})
    part.transitions += part.states
    return part


def replay(case):
    return run_case(case)[0]
