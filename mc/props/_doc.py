"""Shared document model + history explorer for C05 and C10 (format-preserving deb822 documents).

A document is *generated from segments*, so the model knows the owner of every byte without asking the
parser under test:

    spec  = [("raw", text) | ("par", [(name, comment, body), ...]), ...]

``comment`` = the field's own comment lines (directly above the name line), ``body`` = "Name:" up to the end of
the value (continuation lines and comment lines *inside* the value included).  Only the very last piece of a
document may lack its final newline.

The model applies an operation and returns *candidate* successor documents (more than one where the statement
leaves a choice: a deleted field's comment lines may go or stay, a new field may sit before or after comment
lines that trail its paragraph, the separator around an inserted paragraph is one or two blank lines).  The text
produced by a dict-style assignment is a wildcard: it must start with the field name (original spelling) and a
colon, consist of whole lines, and read back - by the model's own 15-line field reader - as the assigned value.
The candidate the implementation agrees with becomes the next model state (an "environment answer").
"""
import collections
import io

SENT = "\x00<X>\x00"


class Field(object):
    __slots__ = ("name", "comment", "body")

    def __init__(self, name, comment, body):
        self.name, self.comment, self.body = name, comment, body

    def copy(self):
        return Field(self.name, self.comment, self.body)


def from_spec(spec):
    doc = []
    for it in spec:
        if it[0] == "raw":
            doc.append(["raw", it[1]])
        else:
            doc.append(["par", [Field(*f) for f in it[1]]])
    return doc


def to_spec(doc):
    return [("raw", it[1]) if it[0] == "raw" else ("par", [(f.name, f.comment, f.body) for f in it[1]]) for it in doc]


def copy_doc(doc):
    return [[it[0], it[1]] if it[0] == "raw" else ["par", [f.copy() for f in it[1]]] for it in doc]


def pieces(doc):
    for it in doc:
        if it[0] == "raw":
            yield it, None
        else:
            for f in it[1]:
                yield it, f


def render(doc):
    out = []
    for it in doc:
        if it[0] == "raw":
            out.append(it[1])
        else:
            for f in it[1]:
                out.append(f.comment)
                out.append(f.body)
    return "".join(out)


def terminate_inner(doc):
    """every non-empty text piece except the very last must end with a newline (in place)"""
    refs = []
    for it in doc:
        if it[0] == "raw":
            if it[1]:
                refs.append((it, None))
        else:
            for f in it[1]:
                refs.append((it, f))
    for it, f in refs[:-1]:
        if f is None:
            if not it[1].endswith("\n"):
                it[1] += "\n"
        elif not f.body.endswith("\n") and f.body != SENT:
            f.body += "\n"
    return doc


def terminate_last(doc):
    """-> copy with the final newline supplied, or None if already terminated / empty"""
    d = copy_doc(doc)
    for it in reversed(d):
        if it[0] == "raw":
            if it[1]:
                if it[1].endswith("\n"):
                    return None
                it[1] += "\n"
                return d
        elif it[1]:
            f = it[1][-1]
            if f.body.endswith("\n") or f.body == SENT:
                return None
            f.body += "\n"
            return d
    return None


def pars(doc):
    return [it[1] for it in doc if it[0] == "par"]


# ---------------------------------------------------------------- the model's own field reader

def read_value(body):
    """value of a field as the dict interface reports it: first line trimmed, comment lines dropped,
    continuation lines verbatim, final newline dropped"""
    lines = body.split("\n")
    if body.endswith("\n"):
        lines = lines[:-1]
    first = lines[0].split(":", 1)[1].strip()
    rest = [l for l in lines[1:] if not l.startswith("#")]
    return "\n".join([first] + rest)


def valid_field_text(x, name, value):
    """x is whole lines, starts with `name:`, later lines are continuation lines, reads back as value"""
    if not x.endswith("\n") or "\n\n" in x:
        return False
    if not x.startswith(name + ":"):
        return False
    lines = x[:-1].split("\n")
    for l in lines[1:]:
        if not l or l[0] not in " \t" or not l.strip():
            return False
    return read_value(x) == value


def expected_get(value):
    """what reading a field back must give for an assigned value (first line trimmed; a final newline, which the
    interface accepts as the terminator of the last line, is not part of the value)"""
    if value.endswith("\n") and value != "\n":
        value = value[:-1]
    if "\n" not in value:
        return value.strip()
    first, rest = value.split("\n", 1)
    return first.strip() + "\n" + rest


def parse_par_text(text, expect):
    """text of a freshly built paragraph -> [Field] if it is exactly the expected (name, value) list"""
    fields = []
    cur = None
    for l in text.splitlines(True):
        if l[0] in " \t":
            if cur is None:
                return None
            cur.body += l
        else:
            if ":" not in l:
                return None
            cur = Field(l.split(":", 1)[0], "", l)
            fields.append(cur)
    if len(fields) != len(expect):
        return None
    for f, (n, v) in zip(fields, expect):
        if not valid_field_text(f.body, n, expected_get(v)):
            return None
    return fields


# ---------------------------------------------------------------- model operations

def _key(k):
    """key of an operation -> (name, index | None).  ("tok", name, i) stands for the field-name token object of the i-th
    occurrence (obtained from the live paragraph right before the call): it denotes exactly that occurrence"""
    if isinstance(k, str):
        return (k, None)
    if len(k) == 3 and k[0] == "tok":
        return (k[1], k[2])
    return (k[0], k[1])


SORT_KEYS = {
    "default": None,
    "lower": lambda n: str(n).lower(),
    "case-sensitive": lambda n: str(n),
    "reversed-spelling": lambda n: str(n).lower()[::-1],
    "length": lambda n: len(n),
}


def split_build(fields):
    """fields of a new paragraph, optionally led by ("@", how-it-is-built) -> (how, fields)"""
    fields = tuple(tuple(x) for x in fields)
    if fields and fields[0][0] == "@":
        return fields[0][1], fields[1:]
    return "setitem", fields


def occ(par, name):
    n = name.lower()
    return [i for i, f in enumerate(par) if f.name.lower() == n]


def _par_item(doc, pi):
    n = -1
    for idx, it in enumerate(doc):
        if it[0] == "par":
            n += 1
            if n == pi:
                return idx
    raise IndexError(pi)


def _remove_variants(doc, item_idx, field_idxs):
    """remove fields (descending index order) from par at item_idx; each removed field's comment may go or stay.
    -> list of docs"""
    outs = [copy_doc(doc)]
    for fi in sorted(field_idxs, reverse=True):
        nxt = []
        for d in outs:
            par = d[item_idx][1]
            f = par[fi]
            # comment goes
            d1 = copy_doc(d)
            del d1[item_idx][1][fi]
            nxt.append(d1)
            if f.comment:
                d2 = copy_doc(d)
                p2 = d2[item_idx][1]
                del p2[fi]
                if fi < len(p2):
                    p2[fi].comment = f.comment + p2[fi].comment
                else:
                    d2.insert(item_idx + 1, ["raw", f.comment])
                nxt.append(d2)
        outs = nxt
    return outs


def enabled(doc, op):
    if op[0] == "tset":
        ps = pars(doc)
        return op[1] < len(ps) and len(occ(ps[op[1]], op[2])) == 1 and op[3] not in INVALID_VALUES
    if op[0] == "clear":
        ps = pars(doc)
        return op[1] < len(ps) and len(ps[op[1]]) > 0
    if not _how_applies(doc, op):
        return False
    if must_reject(doc, op):
        return True
    t = op[0]
    if t == "append":
        return True
    if t == "insert":
        return 0 <= op[1] <= len(pars(doc))
    ps = pars(doc)
    if op[1] >= len(ps):
        return False
    par = ps[op[1]]
    if t == "sort":
        return True
    name, idx = _key(op[2])
    o = occ(par, name)
    if t == "set":
        if idx is None:
            return True
        return idx < len(o)            # (name, len) on an absent/shorter field: error behaviour not in the statement
    if not o or (idx is not None and idx >= len(o)):
        return False
    if t == "del":
        return True                      # also the last field: the paragraph object stays, without text of its own
    if t in ("first", "last"):
        return True
    rname, ridx = _key(op[3])
    ro = occ(par, rname)
    if not ro or (ridx is not None and ridx >= len(ro)):
        return False
    moved = o if idx is None else [o[idx]]
    if ridx is None:
        ref = ro[0] if t == "before" else ro[-1]
    else:
        ref = ro[ridx]
    return ref not in moved


INVALID_VALUES = ("x\ny", "x\n\n y")

# other public ways of performing a dict-style assignment / deletion (5th element of a "set", 4th of a "del" operation)
SET_HOWS = ("item", "update", "update-pairs", "setdefault", "simple", "simple-keep", "raw", "raw-keep", "view",
            "view-raw", "view-opts", "view-no-final-newline", "view-no-first-line-mapping")
DEL_HOWS = ("item", "pop", "pop-default", "remove", "view", "view-opts", "popitem")


def how_of(op):
    if op[0] == "set":
        return op[4] if len(op) > 4 else "item"
    if op[0] == "del":
        return op[3] if len(op) > 3 else "item"
    return "item"


def _how_applies(doc, op):
    how = how_of(op)
    if how == "item":
        return True
    if op[0] == "set":
        if how.startswith("simple") and "\n" in op[3]:
            return False          # documented: set_field_to_simple_value refuses values with newlines
        if how in ("simple-keep", "raw-keep", "view-opts") and isinstance(op[2], str):
            ps = pars(doc)
            if op[1] < len(ps) and len(occ(ps[op[1]], op[2])) > 1:
                return False      # documented: preserve_original_field_comment=True refuses an ambiguous key
        return True
    if how == "popitem":
        ps = pars(doc)
        if op[1] >= len(ps) or not isinstance(op[2], str):
            return False
        par = ps[op[1]]
        return bool(par) and par[0].name.lower() == op[2].lower() and len(occ(par, op[2])) == 1
    return True


def raw_value(value):
    """the raw text (everything after the colon) that the dict interface itself builds for a value"""
    if "\n" not in value:
        return " " + value.strip() + "\n"
    first, rest = value.split("\n", 1)
    raw = " " + first.strip() + "\n" + rest
    return raw if raw.endswith("\n") else raw + "\n"


def must_reject(doc, op):
    if op[0] in ("tset", "clear"):
        return False
    return _must_reject(doc, op)


def _must_reject(doc, op):
    """operations the implementation has to refuse (or may refuse): an assignment whose value is not a valid field
    value, or an operation naming an absent field / absent reference / out-of-range occurrence / itself.
    If the implementation raises, the document must be what it was."""
    t = op[0]
    if t in ("append", "insert", "sort"):
        return False
    ps = pars(doc)
    if op[1] >= len(ps):
        return False
    if t == "set":
        return op[3] in INVALID_VALUES
    par = ps[op[1]]
    name, idx = _key(op[2])
    o = occ(par, name)
    if not o or (idx is not None and idx >= len(o)):
        return True
    if t in ("before", "after"):
        rname, ridx = _key(op[3])
        ro = occ(par, rname)
        if not ro or (ridx is not None and ridx >= len(ro)):
            return True
        moved = o if idx is None else [o[idx]]
        ref = (ro[0] if t == "before" else ro[-1]) if ridx is None else ro[ridx]
        return ref in moved
    return False


def step(doc, op, new_par_fields=None):
    """-> list of (candidate doc, wildcard) ; wildcard = None | (name_as_it_must_be_spelled, expected value)"""
    if op[0] == "tset":
        op = ("set",) + tuple(op[1:])
    t = op[0]
    if t in ("insert", "append"):
        return _insert(doc, op, new_par_fields)
    ii = _par_item(doc, op[1])
    par = doc[ii][1]
    if t == "clear":
        return [(d, None) for d in _remove_variants(doc, ii, list(range(len(par))))]
    if t == "set" and how_of(op) == "setdefault" and occ(par, _key(op[2])[0]):
        return [(copy_doc(doc), None)]          # setdefault on a present field changes nothing
    if t == "sort":
        d = copy_doc(doc)
        kf = SORT_KEYS[op[2]] if len(op) > 2 else None
        d[ii][1].sort(key=(lambda f: kf(f.name)) if kf else (lambda f: f.name.lower()))
        return [(d, None)]
    name, idx = _key(op[2])
    o = occ(par, name)
    if t == "set":
        val = expected_get(op[3])
        if not o:
            outs = []
            d = copy_doc(doc)
            d[ii][1].append(Field(name, "", SENT))
            outs.append((d, (name, val)))
            # after the comment lines that trail the paragraph
            if ii + 1 < len(doc) and doc[ii + 1][0] == "raw":
                lines = doc[ii + 1][1].splitlines(True)
                k = 0
                while k < len(lines) and lines[k].startswith("#"):
                    k += 1
                if k:
                    lead = "".join(lines[:k])
                    if not lead.endswith("\n"):
                        lead += "\n"
                    d = copy_doc(doc)
                    d[ii][1].append(Field(name, lead, SENT))
                    d[ii + 1][1] = "".join(lines[k:])
                    outs.append((d, (name, val)))
            return outs
        moved = o if idx is None else [o[idx]]
        first = moved[0]
        base = copy_doc(doc)
        base[ii][1][first].body = SENT
        return [(d, (par[first].name, val)) for d in _remove_variants(base, ii, moved[1:])]
    moved = o if idx is None else [o[idx]]
    if t == "del":
        return [(d, None) for d in _remove_variants(doc, ii, moved)]
    d = copy_doc(doc)
    p = d[ii][1]
    mv = [p[i] for i in moved]
    if t in ("first", "last"):
        rest = [f for i, f in enumerate(p) if i not in moved]
        d[ii][1] = mv + rest if t == "first" else rest + mv
        return [(d, None)]
    rname, ridx = _key(op[3])
    ro = occ(p, rname)
    ref = (ro[0] if t == "before" else ro[-1]) if ridx is None else ro[ridx]
    reff = p[ref]
    rest = [f for i, f in enumerate(p) if i not in moved]
    pos = [j for j, f in enumerate(rest) if f is reff][0]
    ins = pos if t == "before" else pos + 1
    d[ii][1] = rest[:ins] + mv + rest[ins:]
    return [(d, None)]


def _insert(doc, op, fields):
    """new paragraph somewhere in the gap between paragraph i-1 and paragraph i, at a line boundary, with zero to
    two blank lines added on either side (merging is caught by the re-parse comparison)"""
    ps_items = [k for k, it in enumerate(doc) if it[0] == "par"]
    i = len(ps_items) if op[0] == "append" else op[1]
    lo = ps_items[i - 1] + 1 if i > 0 else 0
    hi = ps_items[i] if i < len(ps_items) else len(doc)
    gap = "".join(it[1] for it in doc[lo:hi])
    left, right = doc[:lo], doc[hi:]
    outs = []
    seen = set()
    cuts = [0]
    for l in gap.splitlines(True):
        cuts.append(cuts[-1] + len(l))
    for c in cuts:
        g1, g2 = gap[:c], gap[c:]
        for s1 in ("", "\n", "\n\n"):
            for s2 in ("", "\n", "\n\n"):
                d = copy_doc(left) + [["raw", g1], ["raw", s1], ["par", [f.copy() for f in fields]],
                                      ["raw", s2 + g2]] + copy_doc(right)
                # a gap piece that lacks its newline gets it before the separator is counted
                if g1 and not g1.endswith("\n"):
                    d[len(left)][1] = g1 + "\n"
                d = [it for it in d if it[0] == "par" or it[1]]
                terminate_inner(d)
                key = render(d)
                if key not in seen:
                    seen.add(key)
                    outs.append((d, None))
    return outs


def match(cands, dump, nl_liberty):
    """-> (doc, None) for the first candidate the dump agrees with, else (None, reason)"""
    why = None
    for d, wild in cands:
        variants = [terminate_inner(copy_doc(d))]
        if nl_liberty == "any":
            v2 = terminate_last(variants[0])
            if v2 is not None:
                variants.append(v2)
        for v in variants:
            text = render(v)
            if wild is None:
                if text == dump:
                    return v, None
                continue
            pre, _, post = text.partition(SENT)
            if len(dump) >= len(pre) + len(post) and dump.startswith(pre) and (dump.endswith(post) or not post):
                x = dump[len(pre):len(dump) - len(post)]
                if valid_field_text(x, wild[0], wild[1]):
                    for _it, f in pieces(v):
                        if f is not None and f.body == SENT:
                            f.body = x
                    return v, None
                why = "bytes around the field are as expected but the field text %r is not `%s:` + lines reading back as %r" % (
                    x, wild[0], wild[1])
    return None, why


def model_view(doc):
    """[[(name, value)]] per paragraph, as a fresh parse of the text sees them (a paragraph that lost all its fields
    leaves no text behind)"""
    return [[(f.name, read_value(f.body)) for f in p] for p in pars(doc) if p]


# ---------------------------------------------------------------- implementation side

_TOKENS = {}


ORIGINS = ("str", "bytes", "tuple", "generator", "fd-bytes", "fd-text", "bare-lines", "reparse", "built")


def origin_applies(text, origin):
    """lines given without their newlines stand for a terminated document of two or more lines"""
    return origin != "bare-lines" or (text.endswith("\n") and text.count("\n") >= 2)


def parse_impl(text, origin="str"):
    """the file object for a document text; `origin` = the way it comes into being (the input kinds
    parse_deb822_file documents: an iterable of str or bytes lines, an open file; a second parse of a first
    parse's dump; or no parse at all - paragraphs built from mappings and appended to an empty file)"""
    from debian._deb822_repro import parse_deb822_file
    from debian._deb822_repro.parsing import Deb822FileElement, Deb822ParagraphElement
    lines = text.splitlines(True)
    if origin == "built":
        f = Deb822FileElement.new_empty_file()
        for chunk in text.split("\n\n"):
            fields = collections.OrderedDict()
            for l in chunk.splitlines(True):
                if l[0] in " \t":
                    fields[next(reversed(fields))] += l
                else:
                    fields[l.split(":", 1)[0]] = l
            par = Deb822ParagraphElement.from_dict(collections.OrderedDict((n, read_value(b)) for n, b in fields.items()))
            if not list(f):
                f.insert(0, par)          # (into the empty file)
            else:
                f.append(par)
    else:
        if origin == "bytes":
            seq = [l.encode("utf-8") for l in lines]
        elif origin == "tuple":
            seq = tuple(lines)
        elif origin == "generator":
            seq = (l for l in lines)
        elif origin == "fd-bytes":
            seq = io.BytesIO(text.encode("utf-8"))
        elif origin == "fd-text":
            seq = io.StringIO(text, newline="")
        elif origin == "bare-lines":
            seq = [l[:-1] for l in lines]
        elif origin == "reparse":
            seq = parse_deb822_file(lines, accept_files_with_error_tokens=True,
                                    accept_files_with_duplicated_fields=True).dump().splitlines(True)
        else:
            seq = lines
        f = parse_deb822_file(seq, accept_files_with_error_tokens=True, accept_files_with_duplicated_fields=True)
    _TOKENS.clear()
    _TOKENS["file"] = f
    return f


def field_token(f, pi, name):
    """the field-name token of (paragraph, name) as it was when first asked for in this history - later uses hand
    the library the same (by then possibly replaced) token object, which the key type permits"""
    if _TOKENS.get("file") is not f:
        _TOKENS.clear()
        _TOKENS["file"] = f
    k = (pi, name.lower())
    if k not in _TOKENS:
        _TOKENS[k] = list(f)[pi].get_kvpair_element(name).field_token
    return _TOKENS[k]


def build_par(fields):
    """a new paragraph: fields assigned one by one to an empty paragraph (default), from_dict(), or from_kvpairs()
    with the field elements of a separately parsed text"""
    from debian._deb822_repro import parse_deb822_file
    from debian._deb822_repro.parsing import Deb822ParagraphElement
    how, fields = split_build(fields)
    if how == "from_dict":
        return Deb822ParagraphElement.from_dict(collections.OrderedDict(fields))
    if how == "from_kvpairs":
        text = "".join("%s:%s" % (n, raw_value(v)) for n, v in fields)
        tmp = next(iter(parse_deb822_file(text.splitlines(True), accept_files_with_duplicated_fields=True)))
        return Deb822ParagraphElement.from_kvpairs(list(tmp.iter_parts()))
    p = Deb822ParagraphElement.new_empty_paragraph()
    for n, v in fields:
        p[n] = v
    return p


def impl_key(p, k):
    if isinstance(k, tuple) and len(k) == 3 and k[0] == "tok":
        return p.get_kvpair_element((k[1], k[2])).field_token
    return k


def apply_impl(f, op):
    t = op[0]
    if t == "append":
        f.append(build_par(op[1]))
        return
    if t == "insert":
        f.insert(op[1], build_par(op[2]))
        return
    p = list(f)[op[1]]
    how = how_of(op)
    if t == "sort":
        if len(op) > 2:
            p.sort_fields(key=SORT_KEYS[op[2]])
        else:
            p.sort_fields()
    elif t == "first":
        p.order_first(impl_key(p, op[2]))
    elif t == "last":
        p.order_last(impl_key(p, op[2]))
    elif t == "before":
        p.order_before(impl_key(p, op[2]), impl_key(p, op[3]))
    elif t == "after":
        p.order_after(impl_key(p, op[2]), impl_key(p, op[3]))
    elif t == "set":
        return _apply_set(p, impl_key(p, op[2]), op[3], how)
    elif t == "tset":
        p[field_token(f, op[1], op[2])] = op[3]
    elif t == "del":
        return _apply_del(p, impl_key(p, op[2]), how)
    elif t == "clear":
        p.clear()
    else:
        raise AssertionError(op)


def _opts_view(p):
    return p.configured_view(discard_comments_on_read=False, auto_resolve_ambiguous_fields=False)


def _apply_set(p, key, val, how):
    if how == "item":
        p[key] = val
    elif how == "update":
        p.update({key: val})
    elif how == "update-pairs":
        p.update([(key, val)])
    elif how == "setdefault":
        return ("setdefault", p.setdefault(key, val))
    elif how == "simple":
        p.set_field_to_simple_value(key, val)
    elif how == "simple-keep":
        p.set_field_to_simple_value(key, val, preserve_original_field_comment=True)
    elif how == "raw":
        p.set_field_from_raw_string(key, raw_value(val))
    elif how == "raw-keep":
        p.set_field_from_raw_string(key, raw_value(val), preserve_original_field_comment=True)
    elif how == "view":
        p.configured_view()[key] = val
    elif how == "view-raw":
        p.configured_view(auto_map_initial_line_whitespace=False,
                          auto_map_final_newline_in_multiline_values=False)[key] = raw_value(val)
    elif how == "view-opts":
        _opts_view(p)[key] = val
    elif how == "view-no-final-newline":
        # (multi-line values must then carry their final newline themselves)
        p.configured_view(auto_map_final_newline_in_multiline_values=False)[key] = \
            val if "\n" not in val or val.endswith("\n") else val + "\n"
    elif how == "view-no-first-line-mapping":
        # (the value is taken as raw text; the final newline is still supplied)
        raw = raw_value(val)
        p.configured_view(auto_map_initial_line_whitespace=False)[key] = raw[:-1] if "\n" in raw[:-1] else raw
    else:
        raise AssertionError(how)


def _apply_del(p, key, how):
    if how == "item":
        del p[key]
    elif how == "pop":
        return ("pop", p.pop(key))
    elif how == "pop-default":
        return ("pop", p.pop(key, None))
    elif how == "remove":
        p.remove_kvpair_element(key)
    elif how == "view":
        del p.configured_view()[key]
    elif how == "view-opts":
        del _opts_view(p)[key]
    elif how == "popitem":
        return ("popitem", p.popitem())
    else:
        raise AssertionError(how)


def ret_check(doc, op, ret):
    """value returned by the operation (pop, popitem, setdefault on a present field) against the model document
    as it was before the operation -> None | (sig-suffix, expected, observed)"""
    if ret is None:
        return None
    par = pars(doc)[op[1]]
    name, idx = _key(op[2])
    o = occ(par, name)
    if not o:
        return None
    fld = par[o[idx or 0]]
    want = read_value(fld.body)
    if ret[0] == "popitem":
        got = (str(ret[1][0]), ret[1][1])
        return None if got == (fld.name, want) else ("returned-item", (fld.name, want), got)
    return None if ret[1] == want else ("returned-value", want, ret[1])


_REPARSE_MEMO = {}


def impl_view_fresh(text):
    """fresh parse -> ([[(name, value)]], has_error).  In the deep families (route "reparse-memo") the answer for a
    text that was parsed before in this unit is re-used: thousands of histories end in the same few hundred dumps"""
    if check_step.memo:
        if text not in _REPARSE_MEMO:
            if len(_REPARSE_MEMO) > 20000:
                _REPARSE_MEMO.clear()
            check_step.memo = False
            try:
                _REPARSE_MEMO[text] = impl_view_fresh(text)
            finally:
                check_step.memo = True
        return _REPARSE_MEMO[text]
    f = parse_impl(text)
    out = []
    for p in f:
        cnt = collections.Counter()
        fields = []
        for kv in p.iter_parts():
            n = kv.field_name
            i = cnt[n.lower()]
            cnt[n.lower()] += 1
            fields.append((str(n), p[(n, i)]))
        out.append(fields)
    return out, f.find_first_error_element() is not None


def live_check(f, doc):
    """(name, i) lookups, case-insensitive lookups and membership on the live object -> None | (sig-suffix, exp, obs)"""
    lps = list(f)
    mps = pars(doc)
    if len(lps) != len(mps):
        return ("live/paragraph-count", len(mps), len(lps))
    for p, mp in zip(lps, mps):
        cnt = collections.Counter()
        for fld in mp:
            n = fld.name
            i = cnt[n.lower()]
            cnt[n.lower()] += 1
            want = read_value(fld.body)
            for spelling in (n, n.swapcase()):
                try:
                    got = p[(spelling, i)]
                except Exception as e:
                    got = "%s: %s" % (type(e).__name__, e)
                if got != want:
                    return ("live/index", "p[(%r,%d)] == %r" % (spelling, i, want), got)
        for n, c in cnt.items():
            try:
                extra = p[(n, c)]
            except Exception:
                extra = None
            if extra is not None:
                return ("live/index-extra", "no occurrence (%r,%d)" % (n, c), extra)
            try:
                got = p[n]
                want = read_value([x for x in mp if x.name.lower() == n][0].body)
                if got != want:
                    return ("live/unindexed-get", want, got)
            except Exception as e:
                return ("live/unindexed-get", "value", "%s: %s" % (type(e).__name__, e))
        if "Zz-absent" in p:
            return ("live/absent", "absent", "present")
        if len(set(cnt)) == len(mp):
            keys = [str(k) for k in p.keys()]
            if keys != [x.name for x in mp]:
                return ("live/keys", [x.name for x in mp], keys)
    return None


def live_wide(f, doc):
    """the other ways of reading a paragraph (get, items, values, len, iteration, membership, configured views, the
    field elements' own text) -> None | (sig-suffix, exp, obs)"""
    for p, mp in zip(list(f), pars(doc)):
        names = [x.name for x in mp]
        vals = [read_value(x.body) for x in mp]
        unique = len(set(n.lower() for n in names)) == len(names)
        raw = p.configured_view(discard_comments_on_read=False, auto_map_initial_line_whitespace=False,
                                auto_map_final_newline_in_multiline_values=False)
        cnt = collections.Counter()
        try:
            for fld in mp:
                i = cnt[fld.name.lower()]
                cnt[fld.name.lower()] += 1
                got = raw[(fld.name, i)]
                if got != fld.body[len(fld.name) + 1:]:
                    return ("live/raw-view", fld.body[len(fld.name) + 1:], got)
                got = p.get_kvpair_element((fld.name, i)).convert_to_text()
                if got != fld.comment + fld.body:
                    return ("live/field-element-text", fld.comment + fld.body, got)
                if (fld.name, i) not in p or (fld.name.swapcase(), i) not in p:
                    return ("live/contains-indexed", "(%r, %d) in paragraph" % (fld.name, i), False)
            if len(p) != len(mp):
                return ("live/len", len(mp), len(p))
            if bool(p.has_duplicate_fields) != (not unique):
                return ("live/has-duplicate-fields", not unique, p.has_duplicate_fields)
            if [str(k) for k in iter(p)] != names:
                return ("live/iter", names, [str(k) for k in iter(p)])
            if p.get("Zz-absent") is not None or p.get("Zz-absent", 5) != 5:
                return ("live/get-absent", "default", p.get("Zz-absent", 5))
            if not unique:
                continue
            dflt = p.configured_view()
            for how, got in (("get", [p.get(n) for n in names]), ("get-other-case", [p.get(n.swapcase()) for n in names]),
                             ("items", [(str(k), v) for k, v in p.items()]), ("values", list(p.values())),
                             ("dict", list(dict(p).items())), ("contains", [n in p and n.swapcase() in p for n in names]),
                             ("default-view", [dflt[n] for n in names]), ("default-view-items", list(dflt.items())),
                             ("opts-view", [_opts_view(p)[n] for n in names] if all("#" not in x.body for x in mp) else vals)):
                want = list(zip(names, vals)) if how in ("items", "dict", "default-view-items") else \
                    [True] * len(names) if how == "contains" else vals
                if got != want:
                    return ("live/" + how, want, got)
        except Exception as e:
            return ("live/wide-read-raises", "readable", "%s: %s" % (type(e).__name__, e))
    return None


def dump_routes(f, doc, dump):
    """every other way of writing the document out against dump() (and the paragraphs' own dumps against the model)
    -> None | (sig-suffix, exp, obs)"""
    try:
        got = f.convert_to_text()
        if got != dump:
            return ("via-convert-to-text", dump, got)
        b = io.BytesIO()
        f.dump(b)
        if b.getvalue() != dump.encode("utf-8"):
            return ("via-dump-fd", dump.encode("utf-8"), b.getvalue())
        got = "".join(x.convert_to_text() for x in f.iter_parts())
        if got != dump:
            return ("via-iter-parts", dump, got)
        want = ["".join(x.comment + x.body for x in mp) for mp in pars(doc)]
        got = [p.dump() for p in f]
        if got != want:
            return ("via-paragraph-dump", want, got)
        got = []
        for p in f:
            b = io.BytesIO()
            p.dump(b)
            got.append(b.getvalue().decode("utf-8"))
        if got != want:
            return ("via-paragraph-dump-fd", want, got)
    except Exception as e:
        return ("dump-route-raises", "dumps", "%s: %s" % (type(e).__name__, e))
    return None


def op_kind(doc, op):
    if op[0] == "tset":
        return "set-by-token"
    if op[0] == "clear":
        return "clear"
    if op[0] == "sort":
        return "sort" if len(op) < 3 else "sort/key-" + op[2]
    if op[0] in ("insert", "append"):
        how = split_build(op[-1])[0]
        return op[0] if how == "setitem" else op[0] + "/via-" + how
    kind = op[0]
    if kind == "set" and not occ(pars(doc)[op[1]], _key(op[2])[0]):
        kind = "add"
    if kind not in ("insert", "append", "add", "sort") and not isinstance(op[2], str):
        kind += "-by-token" if op[2][0] == "tok" and len(op[2]) == 3 else "-indexed"
    if op[0] in ("before", "after") and isinstance(op[3], tuple) and len(op[3]) == 3 and op[3][0] == "tok":
        kind += "/reference-by-token"
    if how_of(op) != "item":
        kind += "/via-" + how_of(op)
    return kind


def outcome_class(doc, op):
    if must_reject(doc, op):
        return op[0] + "/refused"
    k = op_kind(doc, op)
    if k.split("/")[0] in ("set", "add", "set-indexed", "set-by-token"):
        k += "/multi-line" if "\n" in op[3] else "/single-line"
    if not render(doc).endswith("\n"):
        k += "/unterminated-doc"
    return k


def check_step(f, doc, op):
    """apply op to the live file object f and to the model doc -> (new doc | None, [(sig, expected, observed)])"""
    if must_reject(doc, op):
        rk = op[0] + "-refused" + ("/via-" + how_of(op) if how_of(op) != "item" else "")
        try:
            apply_impl(f, op)
        except Exception as e:
            try:
                dump = f.dump()
            except Exception as e2:
                return None, [("doc/%s/dump-raises" % rk, "document unchanged", "%s: %s" % (type(e2).__name__, e2))]
            nd, _why = match([(doc, None)], dump, check_step.nl_liberty)
            if nd is None:
                return None, [("doc/%s/document-changed" % rk,
                               "document unchanged after %s" % type(e).__name__, dump)]
            bad = live_check(f, nd)
            if not bad and check_step.wide:
                bad = live_wide(f, nd) or dump_routes(f, nd, dump)
            if bad:
                return None, [("doc/%s/%s" % (rk, bad[0]), bad[1], bad[2])]
            view, err = impl_view_fresh(dump)
            if err or view != model_view(nd):
                return None, [("doc/%s/reparse" % rk, model_view(nd), view)]
            return nd, []
        return None, []          # accepted although it could have been refused: behaviour not in the statement
    newf = None
    try:
        if op[0] in ("insert", "append"):
            fields = op[-1]
            ptxt = build_par(fields).dump()
            newf = parse_par_text(ptxt, split_build(fields)[1])
            if newf is None:
                return None, [("doc/%s/new-paragraph-text" % op_kind(doc, op), "lines reading back as %r" % (fields,), ptxt)]
        ret = apply_impl(f, op)
        dump = f.dump()
    except Exception as e:
        return None, [("doc/%s/raises" % op_kind(doc, op), "no exception", "%s: %s" % (type(e).__name__, e))]
    cands = step(doc, op, newf)
    kind = op_kind(doc, op)
    bad = ret_check(doc, op, ret)
    if bad:
        return None, [("doc/%s/%s" % (kind, bad[0]), bad[1], bad[2])]
    unterminated = "" if render(doc).endswith("\n") else "/unterminated-doc"
    nd, why = match(cands, dump, check_step.nl_liberty)
    if nd is None:
        exp = why or [render(terminate_inner(copy_doc(c[0]))) for c in cands[:3]]
        return None, [("doc/%s/bytes%s" % (kind, unterminated), exp, dump)]
    bad = live_check(f, nd)
    if not bad and check_step.wide:
        bad = live_wide(f, nd) or dump_routes(f, nd, dump)
    if bad:
        return None, [("doc/%s/%s" % (kind, bad[0]), bad[1], bad[2])]
    try:
        view, err = impl_view_fresh(dump)
    except Exception as e:
        return None, [("doc/%s/reparse-raises" % kind, "parses", "%s: %s" % (type(e).__name__, e))]
    want = model_view(nd)
    if err or view != want:
        return None, [("doc/%s/reparse%s" % (kind, unterminated), want, ("error element; " if err else "") + repr(view))]
    return nd, []


check_step.nl_liberty = "strict"
check_step.wide = False
check_step.memo = False


def _route(route):
    """route = None | {"origin": one of ORIGINS, "wide": bool, "family": signature prefix of a ladder / deep family}
    -> (origin, signature prefix)"""
    route = route or {}
    check_step.wide = bool(route.get("wide"))
    check_step.memo = bool(route.get("reparse-memo"))
    origin = route.get("origin", "str")
    fam = route.get("family")
    return origin, (fam + "/" if fam else "") + ("via-%s/" % origin if origin != "str" else "")


def run_history(spec, history, nl_liberty, route=None):
    """Full check of every step (used by replay).  -> (final model doc | None, violations)"""
    check_step.nl_liberty = nl_liberty
    origin, pre = _route(route)
    doc = from_spec(spec)
    text = render(doc)
    if not origin_applies(text, origin):
        return None, []
    try:
        f = parse_impl(text, origin)
    except Exception as e:
        return None, [(pre + "doc/initial-parse-raises", "parses", "%s: %s" % (type(e).__name__, e))]
    if f.dump() != text:
        return None, [(pre + "doc/initial-dump", text, f.dump())]
    bad = live_check(f, doc) or (check_step.wide and (live_wide(f, doc) or dump_routes(f, doc, text)))
    view, err = impl_view_fresh(text)
    if bad or err or view != model_view(doc):
        return None, [(pre + "doc/initial-view", model_view(doc), bad or view)]
    for op in history:
        if not enabled(doc, op):
            return None, []      # not a history of the model
        doc, bad = check_step(f, doc, op)
        if bad:
            return None, [(pre + sig, exp, obs) for sig, exp, obs in bad]
        if doc is None:
            return None, []
    return doc, []


def run_last(spec, prefix, doc_before, op, nl_liberty, route=None):
    """prefix was verified before: replay it blindly on a fresh object, then check op in full."""
    check_step.nl_liberty = nl_liberty
    origin, pre = _route(route)
    try:
        f = parse_impl(render(from_spec(spec)), origin)
    except Exception as e:
        return None, [(pre + "doc/initial-parse-raises", "parses", "%s: %s" % (type(e).__name__, e))]
    for p in prefix:
        try:
            apply_impl(f, p)
        except Exception:
            pass              # a refused operation of the (already verified) prefix
    nd, bad = check_step(f, doc_before, op)
    return nd, [(pre + sig, exp, obs) for sig, exp, obs in bad]


def explore(part, spec, ops_fn, tree_depth, graph_depth, nl_liberty, base_case, graph_ops_fn=None, extend=None,
            ops2_fn=None, first_slice=None):
    """tree mode to tree_depth (every history replayed), then graph mode (dedupe on the model document) to
    graph_depth with graph_ops_fn's (smaller) alphabet.  extend(op): every operation is applied and checked at every
    level, but only histories whose operations all satisfy extend() are extended further."""
    route = base_case.get("route")
    origin, pre = _route(route)
    doc0 = from_spec(spec)
    text = render(doc0)
    if not origin_applies(text, origin):
        return
    try:
        f = parse_impl(text, origin)
    except Exception as e:
        part.violation(pre + "doc/initial-parse-raises", dict(base_case, history=[]), "parses", "%s: %s" % (type(e).__name__, e))
        return
    if f.dump() != text:
        part.violation(pre + "doc/initial-dump", dict(base_case, history=[]), text, f.dump())
        return
    bad = live_check(f, doc0) or (check_step.wide and (live_wide(f, doc0) or dump_routes(f, doc0, text)))
    view, err = impl_view_fresh(text)
    if bad or err or view != model_view(doc0):
        part.violation(pre + "doc/initial-view", dict(base_case, history=[]), model_view(doc0), bad or view)
        return
    seen = {repr(to_spec(doc0))}

    def rec(hist, doc):
        ops = [op for op in (ops_fn if not hist or ops2_fn is None else ops2_fn)(doc) if enabled(doc, op)]
        if not hist and first_slice is not None:
            # (a unit explores the histories whose first operation is the k-th of every m enabled ones)
            ops = ops[first_slice[0]::first_slice[1]]
        for op in ops:
            nd, viol = run_last(spec, hist, doc, op, nl_liberty, route)
            part.transitions += 1
            part.evaluations += 1
            h2 = hist + [op]
            if viol:
                for sig, exp, obs in viol:
                    part.violation(sig, dict(base_case, history=h2), exp, obs, rank=len(h2))
                continue
            if nd is None:
                part.outcomes[op[0] + "/outside-statement"] += 1
                continue
            part.outcomes[outcome_class(doc, op)] += 1
            seen.add(repr(to_spec(nd)))
            if len(h2) < tree_depth and (extend is None or extend(op)):
                rec(h2, nd)
            else:
                part.traces += 1
    rec([], doc0)
    part.max_depth = max(part.max_depth, tree_depth)
    if graph_depth > 0:
        gops = graph_ops_fn or ops_fn
        gseen = {repr(to_spec(doc0))}
        frontier = [([], doc0)]
        for depth in range(1, graph_depth + 1):
            nxt = []
            for hist, doc in frontier:
                for op in gops(doc):
                    if not enabled(doc, op):
                        continue
                    nd, viol = run_last(spec, hist, doc, op, nl_liberty, route)
                    part.transitions += 1
                    part.evaluations += 1
                    h2 = hist + [op]
                    if viol:
                        for sig, exp, obs in viol:
                            part.violation(sig, dict(base_case, history=h2), exp, obs, rank=len(h2))
                        continue
                    if nd is None:
                        continue
                    part.outcomes[outcome_class(doc, op)] += 1
                    k = repr(to_spec(nd))
                    if k not in gseen:
                        gseen.add(k)
                        nxt.append((h2, nd))
            frontier = nxt
            part.max_depth = max(part.max_depth, depth)
        seen |= gseen
    part.states += len(seen)
    part.nontrivial += len(seen) - 1


# ---------------------------------------------------------------- beyond the small scope: count / size ladders, deep alphabets

LADDER_NS = {"small": list(range(1, 41)), "mid": [63, 64, 65, 100, 127, 128, 129, 255, 256, 257],
             "big": [999, 1000, 1001, 1025], "huge": [2500, 2501, 5000]}
SIZE_LS = [997, 998, 999, 1000, 4095, 4096, 4097, 16383, 16384, 16385, 65535, 65536, 65537, 131071, 131072, 131073,
           262143, 262144, 262145]


def open_tail(spec):
    """the same document without the newline of its very last line"""
    doc = from_spec(spec)
    last = None
    for it, f in pieces(doc):
        if f is not None or it[1]:
            last = (it, f)
    it, f = last
    if f is None:
        it[1] = it[1][:-1]
    else:
        f.body = f.body[:-1]
    return to_spec([x for x in doc if x[0] == "par" or x[1]])


def straddle_text(L, lead=0):
    """L characters; when the text starts at byte offset `lead` of a UTF-8 file, a two-byte character straddles every
    multiple of 4096 bytes (its first byte is the last byte of a block)"""
    out = []
    nbytes = lead
    nchars = 0
    B = 4096
    while True:
        fill = B - 1 - nbytes
        if fill < 0:
            B += 4096
            continue
        if nchars + fill + 1 > L - 1:
            break
        out.append("a" * fill + "\u00e9")
        nchars += fill + 1
        nbytes = B + 1
        B += 4096
    out.append(("bcdefghij" * ((L - nchars) // 9 + 1))[:L - nchars])
    t = "".join(out)
    assert len(t) == L
    return t


def sized_text(L, content, lead=0):
    """a single line of exactly L characters built to expose block-wise processing: `content` names what sits just
    before, exactly at, or across every multiple of 4096 (256 for short texts) inside, in the middle and just before the
    last character - a blank, two blanks, a `w: `, two multi-byte characters, ` #`, a tab, or nothing (plain filler)"""
    filler = "abcdefghij"
    base = (filler * (L // 10 + 1))[:L]
    if content == "plain" or L < 8:
        return base
    if content == "straddle":
        return straddle_text(L, lead)
    if content == "words":
        # nine-letter words separated by single blanks (the last character is a letter)
        out = ("abcdefghi " * (L // 10 + 1))[:L]
        return out if out[-1] != " " else out[:-1] + "z"
    mark = {"blank": " ", "colon": "w: ", "multibyte": "\u00e9\u5b57", "hash": " #", "tab": "\t", "blanks": "  ",
            "cr": "\r"}[content]
    t = list(base)
    step = 4096 if L > 4097 else 256
    k = len(mark)
    # the mark ends exactly at a boundary, starts exactly at it, or straddles it - in rotation over the boundaries
    for j, m in enumerate(list(range(step, L, step)) + [L // 2 + 1, L - 1]):
        sp = (m - k, m, m - 1)[j % 3] if m != L - 1 else L - 1 - k
        if 1 <= sp and sp + k <= L - 1:
            t[sp:sp + k] = list(mark)
    out = "".join(t)
    assert len(out) == L and out == out.strip() and "\n" not in out, (L, content)
    return out


def ladder_spec(desc):
    """compact description -> document spec.  desc = {"kind": ..., "n": count | L, "tail": "closed" | "open", ...}:
      fields      one paragraph of n fields K1..Kn (document order is not sorted order; every 5th field has a comment
                  line of its own, every 7th a continuation line)
      dups        one paragraph with n occurrences of A (values a1..an) and one B after the first half of them
      dups-mixed  n occurrences of A alternating with n occurrences of b/B (case variants)
      paragraphs  n paragraphs (P: j, and Q: j in every other one), every 4th separator carries a free comment
      lines       A, then a field L with n continuation lines (every 6th preceded by a comment line), then B
                  ("pos": "last" puts L at the end of the paragraph)
      comments    a field with n comment lines of its own, between two plain fields
      gap         two paragraphs separated by n blank lines;  gap-comments: by a blank line, n comment lines, a blank line
      trailing    a paragraph followed by n blank lines
      size        A, then a field V whose value is one line of n characters (content = plain | blank | colon |
                  multibyte | hash | tab), then B;  "multi": True makes it the second line of a two-line value"""
    kind, n = desc["kind"], desc["n"]
    F = lambda name, v: (name, "", "%s: %s\n" % (name, v))
    if kind == "fields":
        fs = []
        for i in range(1, n + 1):
            name = "K%d" % i
            fs.append((name, "#about %s\n" % name if i % 5 == 3 else "",
                       "%s: v%d\n" % (name, i) + (" more %d\n" % i if i % 7 == 5 else "")))
        spec = [("par", fs)]
    elif kind == "dups":
        fs = [F("A", "a%d" % i) for i in range(1, n + 1)]
        fs.insert((n + 1) // 2, F("B", "b"))
        spec = [("par", fs)]
    elif kind == "dups-mixed":
        fs = []
        for i in range(1, n + 1):
            fs.append(F("A", "a%d" % i))
            fs.append(F("b" if i % 2 else "B", "b%d" % i))
        spec = [("par", fs)]
    elif kind == "paragraphs":
        spec = []
        for j in range(1, n + 1):
            if j > 1:
                spec.append(("raw", "\n#free %d\n\n" % j if j % 4 == 0 else "\n"))
            spec.append(("par", [F("P", "p%d" % j)] + ([F("Q", "q%d" % j)] if j % 2 else [])))
    elif kind == "lines":
        body = "L: first\n" + "".join(("#in %d\n" % i if i % 6 == 0 else "") + " line %d\n" % i for i in range(1, n + 1))
        fs = [F("A", "1"), ("L", "", body), F("B", "2")]
        if desc.get("pos") == "last":
            fs = [fs[0], fs[2], fs[1]]
        spec = [("par", fs)]
    elif kind == "comments":
        spec = [("par", [F("A", "1"), ("C", "".join("#c %d\n" % i for i in range(1, n + 1)), "C: c\n"), F("B", "2")])]
    elif kind == "gap":
        spec = [("par", [F("A", "1"), F("B", "2")]), ("raw", "\n" * n), ("par", [F("C", "3")])]
    elif kind == "gap-comments":
        spec = [("par", [F("A", "1"), F("B", "2")]), ("raw", "\n" + "".join("#g %d\n" % i for i in range(1, n + 1)) + "\n"),
                ("par", [F("C", "3")])]
    elif kind == "trailing":
        spec = [("par", [F("A", "1"), F("B", "2")]), ("raw", "\n" * n)]
    elif kind == "size":
        text = sized_text(n, desc.get("content", "plain"))
        v = ("V", "", "V: head\n %s\n" % text) if desc.get("multi") else F("V", text)
        fs = [F("A", "1"), v, F("B", "2")]
        if desc.get("pos") == "last":
            fs = [fs[0], fs[2], fs[1]]
        spec = [("par", fs)]
    else:
        raise AssertionError(desc)
    return open_tail(spec) if desc.get("tail") == "open" else spec


def case_spec(case):
    """the document of a case: stored as it is ("doc") or as the compact description it is generated from ("ladder")"""
    return case["doc"] if "doc" in case else ladder_spec(case["ladder"])
