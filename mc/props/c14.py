"""C14 - Version accepts exactly the valid version strings, decomposes them losslessly, and a failed
component assignment leaves the object exactly as it was.

Engine B (acceptance): every string of length <= n over 13 symbols (version alphabet + blank, newline,
'_', a non-ASCII letter, a non-ASCII digit) is given to Version().  Oracle: mc.models.versyntax -
construction succeeds iff the string is valid (strings on which the two readings of the hyphen rule differ
are don't-care for acceptance); an accepted string is returned unchanged by str() and recomposed by
[epoch:]upstream[-revision]; for valid strings the components are the ones the grammar gives (revision =
what follows the last hyphen).

Engine A (assignments): a state is the history that reaches it; every history of setattr() steps up to
depth d is replayed on a fresh Version(start) next to the model (three components; recompose with an
empty revision omitted; valid -> the state is the parse of the recomposition, invalid -> ValueError and
str/epoch/upstream_version/debian_revision exactly as before).  A history that reaches a don't-care
string or a violation is not extended.

Numeric boundaries (the syntax limits neither the length nor the value of a digit run): the digit runs of
versyntax.digit_runs() - 2^15, 2^16, 10^9, 2^31, 2^32, 2^63, 2^64, 10^19, 10^20 and their predecessors, a 40- and a 300-digit run,
long runs of small value - bare, with one and with ten leading zeros, as epoch, as upstream version, as a component of
it, as revision (12 templates) go through the acceptance oracle; the same runs, as str and (value permitting) as int,
are assigned to epoch, upstream_version and debian_revision of two start versions (all histories of length 1; length 2
over the bare runs followed by another run or an ordinary step), checked by the assignment model.

Beyond the small scope (signatures ladder/..., size/..., deep/...): the count ladders of C03's generator (n runs, n hyphens,
n colons; n in 1..40 and 63..1001) - every variant and the base with one foreign character at five positions through the
acceptance oracle, the laddered part assigned / assigned invalidly / rolled back; one run of 997 .. 65 537 (thorough:
262 145) characters in every position; all assignment histories of length <= 5 over 8 assignments (four of them refused).
"""
import copy
import itertools
import pickle

from .. import core
from ..models import versyntax

ID = "C14"
LEVEL = "model_checking"
RULE = ("Engine B: states = strings visited in the trie walk (every string of length <= n), transitions = one-symbol "
        "extensions, traces = strings given to Version(); Engine A: states = live assignment histories (a state is the "
        "history that reaches it, rebuilt by replay on a fresh object), transitions = setattr steps applied as the last "
        "step of a history, traces = histories replayed from a fresh object; non-trivial = accepted strings that have an "
        "epoch or a revision, rejected strings made of version-alphabet characters only (rejected for structure), and "
        "histories whose last assignment is applied to an object that has already rolled back a rejected one; "
        "numeric boundaries: one state / transition / trace per (template, digit run) and per assignment history as "
        "above; such a history is also non-trivial when it assigns a digit run whose value is >= 2**31; ladders / sizes "
        "(beyond the small scope): one state / transition / trace per generated string and per assignment history of a "
        "(family, count) or (position, run length); deep histories: as the other assignment histories")
BUDGET = {"quick": 240, "thorough": 3000}

SYMBOLS = ["0", "1", "a", ".", "+", "~", "-", ":", " ", "\n", "_", "é", "٣"]
STARTS = ["1.0", "1:2.0-3", "0:a-b-c", "1.0-0"]
ATTRS = ["epoch", "upstream_version", "debian_revision", "debian_version", "full_version"]
VALUES = [None, "", "1", "2.0", "a-b", "x:y", " ", "é", "1\n"]
CROSS_ALPHABET = "01a.+~-:_"
NUM_STARTS = ["1.0", "1:2.0-3"]
NUM_ATTRS = ["epoch", "upstream_version", "debian_revision"]

selfcheck_result = {}


def n_for(tier):
    return 4 if tier == "quick" else 7


def depth_for(tier):
    return 2 if tier == "quick" else 4


# thorough only: one more length over the version alphabet alone, one more depth over a reduced value list
VERSION_SYMBOLS = [0, 1, 2, 3, 4, 5, 6, 7]         # indexes into SYMBOLS: 0 1 a . + ~ - :
DEEP_LEN = 8
STRUCTURE_SYMBOLS = [0, 2, 7, 6]                    # indexes into SYMBOLS: 0 a : -
STRUCTURE_LEN = 7
DEEP_VALUES = [None, "1", "a-b", "x:y"]
DEEP_DEPTH = 5
PREFIX3_FROM = 7                                    # acceptance units of this length and longer have 3-symbol prefixes
NUM_CHUNK = 128
RULE += ("; the thorough tier (n = %d, depth %d) adds the strings of length %d over the %d version-alphabet symbols and the "
         "histories of depth %d over %d attributes x %d values (bounds: acceptance.longer, assignments.deeper)"
         % (n_for("thorough"), depth_for("thorough"), DEEP_LEN, len(VERSION_SYMBOLS), DEEP_DEPTH, len(ATTRS), len(DEEP_VALUES)))


def digit_runs(tier):
    """versyntax.digit_runs(tier); thorough: plus 2^k-1, 2^k, 2^k+1 for EVERY k in 7..256, 10^k-1, 10^k for every k in
    4..309 and runs of 2000, 4000 and 4101 digits (canonical order: the basic list first, then the added runs by
    length and value)"""
    runs = list(versyntax.digit_runs(tier))
    if tier == "quick":
        return runs
    vals = set()
    for k in range(7, 257):
        vals.update((2 ** k - 1, 2 ** k, 2 ** k + 1))
    for k in range(4, 310):
        vals.update((10 ** k - 1, 10 ** k))
    have = set(runs)
    more = sorted((str(v) for v in vals if str(v) not in have), key=lambda r: (len(r), r))
    more += ["1234567890" * 200, "9" * 4000, "1" + "0" * 4100]
    return runs + more


def bounds(tier):
    acc = {"alphabet": SYMBOLS, "max_length": n_for(tier),
           "structure": "every string of length %d..%d over %r" % (n_for(tier) + 1, STRUCTURE_LEN, [SYMBOLS[i] for i in STRUCTURE_SYMBOLS])}
    asg = {"starts": STARTS, "attributes": ATTRS, "values": VALUES, "depth": depth_for(tier)}
    if tier != "quick":
        acc["longer"] = "every string of length %d over the %d version-alphabet symbols %r" % (
            DEEP_LEN, len(VERSION_SYMBOLS), [SYMBOLS[i] for i in VERSION_SYMBOLS])
        asg["deeper"] = "every history of depth %d over the %d attributes x the values %r" % (DEEP_DEPTH, len(ATTRS), DEEP_VALUES)
    return {"acceptance": acc,
            "assignments": asg,
            "routes": {"acceptance": "every string of length <= %d over the alphabet, the %d sweep templates and the %d numeric "
                                     "templates with the run 4294967296, along each of %d other routes: %s; an accepted string "
                                     "is judged by the same oracle, and full_version, '%%s' %% v, format(v), '{}'.format(v), "
                                     "v.__str__(), repr(v), debian_version and getattr() of every component agree with str(v) "
                                     "and the attributes" % (route_n(tier), len(SWEEP_TEMPLATES), len(versyntax.DIGIT_RUN_TEMPLATES),
                                                             len(ROUTES), "; ".join(ROUTES.values())),
                       "assignments": "every history of depth <= %s over the %d attributes x %d values, replayed along %r "
                                      "(object made that way / assignment made that way), with the other ways of reading "
                                      "checked after every step and the original of a copy checked to be untouched"
                                      % ("2 from %r and 1 from the other starts" % STARTS[1] if tier == "quick" else "3 from every start",
                                         len(ATTRS), len(VALUES), ["%s+%s" % rs for rs in ASSIGN_ROUTES])},
            "count_ladders": {"counts": "every n in 1..40 and %r%s" % (LADDER_BIG, "" if tier == "quick" else " and %r" % LADDER_THOROUGH),
                              "families": "the %d families of C03's generator (position, separator, first run): %r - n alternating digit / "
                                          "non-digit runs in the upstream part or in the revision; n hyphens; n colons behind an epoch"
                                          % (len(ladder_families()), ladder_families()),
                              "strings": "per (family, n): the valid variants of the generator (base, one run changed, leading zeros, one "
                                         "more run, -0, 0:) and the base made invalid by one foreign character %r (last; the first two also "
                                         "first, after the first run, in the middle, before the last character), for the colon family also "
                                         "a non-numeric epoch - through the acceptance / losslessness / decomposition oracle"
                                         % (LADDER_FOREIGN,),
                              "histories": "per (family, n) on the start %r: the laddered part assigned (upstream_version / debian_revision / "
                                           "debian_version / full_version), assigned again with a foreign character at its end (rejected, "
                                           "rolled back to the long value), followed by a further assignment" % STARTS[1]},
            "size_ladder": {"run_lengths": [L for L in SIZE_RUN if tier != "quick" or L <= SIZE_QUICK_MAX],
                            "what": "one run of exactly L characters (digits, zeros, letters, '~', mixed) as upstream version, as a "
                                    "component, as revision, as epoch (digits), inside a full version; and the same with one foreign "
                                    "character or a newline first / inside / last"},
            "deep_histories": "every history of length <= %d (from %r: %d) over the %d assignments %r from the starts %r, each step "
                              "checked against the model" % (DEEPN_DEPTH[tier], STARTS[0], DEEPN_DEPTH[tier] - 1, len(DEEPN_OPS), DEEPN_OPS,
                                                             [STARTS[i] for i in DEEPN_STARTS]),
            "numeric_boundaries": {
                "digit_runs": digit_runs(tier) if tier == "quick" else
                "%d runs: 2^k-1, 2^k, 2^k+1 for every k = 7..256, 10^k-1, 10^k for every k = 4..309, 40-, 100-, 300-, 1000-, "
                "2000-, 4000- and 4101-digit runs, long runs of small value (the basic list of %d runs: selected k only)"
                % (len(digit_runs(tier)), len(versyntax.digit_runs(tier))),
                "leading_zeros": [0, 1, 10],
                "templates": [t for _p, t in versyntax.DIGIT_RUN_TEMPLATES],
                "assignment_starts": NUM_STARTS, "assignment_attributes": NUM_ATTRS,
                "assignment_values": "every run and zero-padded run as str, every bare run also as int",
                "assignment_depth": "1 over all values; 2 = (attribute, bare run as str) followed by %s or by "
                                    "any of the %d ordinary steps" % (
                                        "one of those" if tier == "quick" else
                                        "(attribute, bare run of the basic list as str)", len(ATTRS) * len(VALUES))}}


def assumptions():
    return ["valid = [epoch:]upstream[-revision] as recognised by mc/models/versyntax.py (cross-checked against dpkg "
            "--validate-version on the 819 blank-free strings of length <= 3 over 9 symbols when dpkg is present)",
            "strings whose body has nothing before its last hyphen, or nothing or a ':' after it, are don't-care for "
            "acceptance (the two readings of the grammar differ there); they are still checked for losslessness when "
            "accepted, and an assignment history that reaches one stops there",
            "assigning full_version is modelled as re-constructing from str(value); assigning None to epoch or revision "
            "removes that part; an empty revision is omitted on recomposition; upstream_version None cannot be recomposed "
            "and must be rejected with ValueError",
            "numeric boundaries: the grammar knows digits, not numbers - a digit run of any length and value is valid as "
            "epoch, in the upstream version and in the revision (Policy 5.6.12 gives no limit; dpkg itself refuses epochs "
            "above INT_MAX, which is a limit of dpkg, so this family is not cross-checked against dpkg); runs stay below 4300 "
            "digits, where Python's own int <-> str conversion stops; their violations carry the prefix numeric/ so that a "
            "magnitude or length guard is told from a character-class slip",
            "ladders and sizes: the grammar limits neither the number of runs, hyphens or colons nor the length of a run; "
            "the ladder strings are the ones C03 compares (mc/props/c03.py ladder_variants), regenerated from (family, n, "
            "variant name, seed) on replay; sizes above 65 537 only in the thorough tier (the model's recogniser is a "
            "character loop)",
            "component assignment takes any value through str() (lib/debian/debian_support.py __setattr__), so an int n is "
            "the run str(n); the unchanged library accepts v.epoch = 2147483648, v.upstream_version = 2**64 and so on",
            "routes: BaseVersion, NativeVersion, Version (the same class under debian.changelog) and subclasses share the "
            "acceptor, so the statement is applied to each; version_compare and a comparison with a string operand only "
            "accept or reject (ValueError); AptPkgVersion needs apt_pkg, which is absent here; Version(None) and non-string "
            "arguments other than version objects and str subclasses are outside the statement ('from a string')",
            "the seed rotates the non-zero digit, the letter, the blank, the foreign ASCII character and the non-ASCII "
            "letter and digit among characters of the same class; '0', newline and the punctuation are never rotated"]


def translation(seed):
    return {ord("1"): core.rep(seed, ["1", "4", "9", "5"]),
            ord("a"): core.rep(seed, ["a", "z", "A", "Z"]),
            ord(" "): core.rep(seed, [" ", "\t"]),
            ord("_"): core.rep(seed, ["_", "*", "/", "="]),
            ord("é"): core.rep(seed, ["é", "ß", "Ω", "я"]),
            ord("٣"): core.rep(seed, ["٣", "５", "५", "๓"])}


def tr(x, seed):
    return x.translate(translation(seed)) if isinstance(x, str) else x


def units(tier, seed):
    try:
        return _units(tier, seed)
    except Exception:
        # core.run_check does not guard units(): an exception here would end the process with exit status 1,
        # which means "violation".  A harness bug must be exit status 3.
        import sys
        import traceback
        sys.stderr.write("HARNESS-ERROR in units():\n%s\n" % traceback.format_exc())
        raise SystemExit(3)


def _units(tier, seed):
    cross = ["".join(t) for n in range(1, 4) for t in itertools.product(CROSS_ALPHABET, repeat=n)]
    res = {"dpkg": versyntax.crosscheck_dpkg([tr(s, seed) for s in cross])}
    selfcheck_result.clear()
    selfcheck_result.update(res)
    if res["dpkg"]["available"] and res["dpkg"]["agree"] != res["dpkg"]["strings"]:
        import sys
        sys.stderr.write("HARNESS-ERROR: mc.models.versyntax disagrees with dpkg --validate-version: %r\n"
                         % (res["dpkg"]["disagreements"],))
        raise SystemExit(3)
    k = len(SYMBOLS)
    out = [{"k": "accept", "len": 2, "prefix": None}]                 # all strings of length 0..2
    for length in range(3, n_for(tier) + 1):
        if length < PREFIX3_FROM:
            out += [{"k": "accept", "len": length, "prefix": [i, j]} for i in range(k) for j in range(k)]
        else:
            out += [{"k": "accept", "len": length, "prefix": [i, j, l]} for i in range(k) for j in range(k) for l in range(k)]
    # longer strings over the four symbols that decide the STRUCTURE of a version (a digit, a letter, the colon, the hyphen):
    # every string of length n+1 .. 7 (several colons and hyphens in every order, e.g. '0:1-:')
    st = STRUCTURE_SYMBOLS
    for length in range(n_for(tier) + 1, STRUCTURE_LEN + 1):
        out += [{"k": "accept", "len": length, "prefix": [i, j, l], "alphabet": st} for i in st for j in st for l in st]
    if tier != "quick":
        # lengths between the full walk and DEEP_LEN over the version alphabet
        vs = VERSION_SYMBOLS
        for length in range(n_for(tier) + 1, DEEP_LEN):
            out += [{"k": "accept", "len": length, "prefix": [i, j, l], "alphabet": vs, "skip_structure": True}
                    for i in vs for j in vs for l in vs]
    if tier != "quick":
        # one more length over the version alphabet alone (shorter strings over it are part of the walk above)
        vs = VERSION_SYMBOLS
        out += [{"k": "accept", "len": DEEP_LEN, "prefix": [i, j, l], "alphabet": vs} for i in vs for j in vs for l in vs]
    # one foreign character at a time: every code point of the sweep list inserted at / substituted in every position
    # of a few valid templates (catches character-class slips outside the 13-symbol alphabet, e.g. a `+-:` range)
    cps = sweep_code_points()
    out += [{"k": "sweep", "lo": i, "hi": min(i + 64, len(cps))} for i in range(0, len(cps), 64)]
    nops = len(ATTRS) * len(VALUES)
    out += [{"k": "assign", "len": 1, "start": si, "first": None} for si in range(len(STARTS))]
    for length in range(2, depth_for(tier) + 1):
        out += [{"k": "assign", "len": length, "start": si, "first": oi} for si in range(len(STARTS)) for oi in range(nops)]
    if tier != "quick":
        # one more depth over the reduced value list (shorter histories over it are part of the units above)
        out += [{"k": "assign", "len": DEEP_DEPTH, "start": si, "first": oi, "values": DEEP_VALUES}
                for si in range(len(STARTS)) for oi in range(len(ATTRS) * len(DEEP_VALUES))]
    # the other ways in: every short string along every other route to a version object, and the assignment histories
    # on objects that came into being differently / assigned to differently
    out += [{"k": "route-accept", "route": r} for r in ROUTES]
    out += [{"k": "route-assign", "route": r, "setter": st, "start": si} for r, st in ASSIGN_ROUTES for si in range(len(STARTS))]
    out += [{"k": "numeric", "template": i} for i in range(len(versyntax.DIGIT_RUN_TEMPLATES))]
    out += [{"k": "numeric-assign", "len": 1, "start": si, "attr": None} for si in range(len(NUM_STARTS))]
    if tier == "quick":
        out += [{"k": "numeric-assign", "len": 2, "start": si, "attr": ai} for si in range(len(NUM_STARTS))
                for ai in range(len(NUM_ATTRS))]
    else:
        nruns = len(digit_runs(tier))
        out += [{"k": "numeric-assign", "len": 2, "start": si, "attr": ai, "lo": lo, "hi": min(lo + NUM_CHUNK, nruns)}
                for si in range(len(NUM_STARTS)) for ai in range(len(NUM_ATTRS)) for lo in range(0, nruns, NUM_CHUNK)]
    # beyond the small scope
    groups = [LADDER_SMALL[i:i + 10] for i in range(0, 40, 10)] + [[n] for n in ladder_counts(tier)[40:]]
    out += [{"k": "ladder", "fam": f, "ns": ns} for f in range(len(ladder_families())) for ns in groups]
    out += [{"k": "size", "pos": pos} for pos in ("upstream", "component", "revision", "epoch", "full")]
    out += [{"k": "deep", "start": si, "first": []} for si in DEEPN_STARTS]
    out += [{"k": "deep", "start": si, "first": [i, j]} for si in DEEPN_STARTS for i in range(len(DEEPN_OPS)) for j in range(len(DEEPN_OPS))]
    return out


SWEEP_TEMPLATES = ["0", "1.0", "1:0", "1:2.0-1", "a-b-c", "1.0~rc1+b2-0ubuntu1"]


def sweep_code_points():
    cps = list(range(0, 0x250))
    for base in (0x660, 0x6F0, 0x966, 0xFF10, 0x1D7CE):          # other decimal digits
        cps += list(range(base, base + 10))
    cps += [0x391, 0x410, 0xFF21, 0xFF41, 0x2028, 0x2029, 0x200B, 0xFEFF, 0x3000, 0x2212, 0x2010, 0xFF0E, 0xFF1A, 0xFF5E]
    return cps


def sweep_strings(cp):
    c = chr(cp)
    seen = []
    for t in SWEEP_TEMPLATES:
        for i in range(len(t) + 1):
            seen.append(t[:i] + c + t[i:])
        for i in range(len(t)):
            seen.append(t[:i] + c + t[i + 1:])
    return sorted(set(seen))


def unit_sweep(part, u, seed):
    cps = sweep_code_points()[u["lo"]:u["hi"]]
    for cp in cps:
        for s in sweep_strings(cp):
            bad, cls, nontrivial = run_string(s)
            part.states += 1
            part.transitions += 1
            part.traces += 1
            part.evaluations += 1
            part.outcomes["sweep/" + cls] += 1
            part.nontrivial += nontrivial
            for sig, exp, obs in bad:
                part.violation(sig, {"k": "string", "s": s}, exp, obs, rank=100 + len(s))
    part.sample({"k": "string", "s": sweep_strings(cps[0])[0]})
    return part


def unit_cost(u, tier):
    if u["k"] == "ladder":
        return 200 * max(u["ns"])
    if u["k"] == "size":
        return 100000
    if u["k"] == "deep":
        return 3 * len(DEEPN_OPS) ** (DEEPN_DEPTH[tier] - 2)
    if u["k"] == "accept":
        return len(u.get("alphabet", SYMBOLS)) ** max(0, u["len"] - len(u["prefix"] or [0, 0]))
    if u["k"] == "sweep":
        return 64 * 100
    if u["k"] == "numeric":
        return 60
    if u["k"] == "route-accept":
        return len(SYMBOLS) ** route_n(tier)
    if u["k"] == "route-assign":
        return 3 * (len(ATTRS) * len(VALUES)) ** (route_depth(tier, u["start"]) - 1)
    if u["k"] == "numeric-assign":
        if "lo" in u:
            return 3 * (u["hi"] - u["lo"]) * 312
        return 3 * (400 if u["len"] == 1 else 2000)
    return 3 * (len(ATTRS) * len(u.get("values", VALUES))) ** max(0, u["len"] - 1)


# ------------------------------------------------------------------------------------------------
# acceptance: one string

def observe(v):
    return (str(v), v.epoch, v.upstream_version, v.debian_revision)


class _Str(str):
    """a str subclass (what e.g. a configuration or XML library hands out)"""


def _subclass():
    from debian.debian_support import Version
    global _SUB
    if _SUB is None or _SUB.__mro__[1] is not Version:
        _SUB = type("DerivedVersion", (Version,), {})
    return _SUB


_SUB = None

# other ways of getting a version object for a string: name -> (description, does it give an object to look at?)
ROUTES = {
    "NativeVersion": "NativeVersion(s)",
    "BaseVersion": "BaseVersion(s)",
    "keyword": "Version(version=s)",
    "subclass": "an application's subclass of Version",
    "str-subclass": "Version(<instance of a str subclass>)",
    "from-BaseVersion": "Version(BaseVersion(s))",
    "BaseVersion-from-Version": "BaseVersion(Version(s))",
    "changelog.Version": "debian.changelog.Version(s)",
    "changelog-block": "debian.changelog.ChangeBlock(version=s).version",
    "copy": "copy.copy(Version(s))",
    "deepcopy": "copy.deepcopy(Version(s))",
    "pickle": "pickle.loads(pickle.dumps(Version(s)))",
    "assign-full_version": "v = Version('0'); v.full_version = s",
    "assign-full_version-version-object": "v = Version('0'); v.full_version = BaseVersion(s)",
    "version_compare-left": "version_compare(s, '0') (accepts or raises ValueError; no object)",
    "version_compare-right": "version_compare('0', s)",
    "compare-with-str": "Version('0') == s (the right operand is converted)",
}
NO_OBJECT = ("version_compare-left", "version_compare-right", "compare-with-str")


def construct(route, s):
    """the object the route gives for the string s (True for the routes that only accept or reject)"""
    from debian import debian_support as ds
    if route == "Version":
        return ds.Version(s)
    if route == "NativeVersion":
        return ds.NativeVersion(s)
    if route == "BaseVersion":
        return ds.BaseVersion(s)
    if route == "keyword":
        return ds.Version(version=s)
    if route == "subclass":
        return _subclass()(s)
    if route == "str-subclass":
        return ds.Version(_Str(s))
    if route == "from-BaseVersion":
        return ds.Version(ds.BaseVersion(s))
    if route == "BaseVersion-from-Version":
        return ds.BaseVersion(ds.Version(s))
    if route == "changelog.Version":
        from debian import changelog
        return changelog.Version(s)
    if route == "changelog-block":
        from debian import changelog
        return changelog.ChangeBlock(version=s).version
    if route == "copy":
        return copy.copy(ds.Version(s))
    if route == "deepcopy":
        return copy.deepcopy(ds.Version(s))
    if route == "pickle":
        return pickle.loads(pickle.dumps(ds.Version(s)))
    if route in ("assign-full_version", "assign-full_version-version-object"):
        v = ds.Version("0")
        try:
            v.full_version = s if route == "assign-full_version" else ds.BaseVersion(s)
        except ValueError:
            if observe(v) != ("0", None, "0", None):
                raise RuntimeError("rejected assignment of full_version changed the object to %r" % (observe(v),))
            raise
        return v
    if route == "version_compare-left":
        ds.version_compare(s, "0")
        return True
    if route == "version_compare-right":
        ds.version_compare("0", s)
        return True
    if route == "compare-with-str":
        ds.Version("0") == s
        return True
    raise KeyError(route)


def read_routes(v, s):
    """every other public way of reading the text and the revision of an accepted version -> [(sig, exp, obs)]"""
    bad = []
    name = type(v).__name__
    for how, fn, want in (("full_version", lambda: v.full_version, s), ("getattr-full_version", lambda: getattr(v, "full_version"), s),
                          ("percent-s", lambda: "%s" % v, s), ("format", lambda: format(v), s), ("str.format", lambda: "{}".format(v), s),
                          ("dunder-str", lambda: v.__str__(), s), ("repr", lambda: repr(v), "%s('%s')" % (name, s)),
                          ("debian_version", lambda: v.debian_version, v.debian_revision),
                          ("getattr-debian_version", lambda: getattr(v, "debian_version"), v.debian_revision),
                          ("getattr-epoch", lambda: getattr(v, "epoch"), v.epoch),
                          ("getattr-upstream_version", lambda: getattr(v, "upstream_version"), v.upstream_version),
                          ("str-again", lambda: str(v), s)):
        try:
            got = fn()
        except Exception as ex:
            got = "<raises %s: %s>" % (type(ex).__name__, ex)
        if got != want or type(got) is not type(want):
            bad.append(("read/" + how, want, got))
    return bad


def run_string(s, route="Version"):
    """-> (violations, outcome class, non-trivial?)"""
    verdict, reason = versyntax.classify(s)
    word = {True: "valid", False: "invalid", None: "dontcare"}[verdict]
    try:
        v = construct(route, s)
        acc = True
    except ValueError:
        acc = False
    except Exception as ex:            # the constructor may only say ValueError
        return ([("accept/raises/" + type(ex).__name__, "Version(%r) is constructed or raises ValueError" % s,
                  "%s: %s" % (type(ex).__name__, ex))], "%s/raises/%s" % (word, reason), False)
    cls = "%s/%s/%s" % (word, "accepted" if acc else "rejected", reason)
    bad = []
    if route in NO_OBJECT:
        if verdict is False and acc:
            bad.append(("accept/invalid-accepted/" + reason, "%s raises ValueError for %r (%s)" % (ROUTES[route], s, reason), "no exception"))
        elif verdict is True and not acc:
            bad.append(("accept/valid-rejected/" + reason, "%s accepts %r (%s)" % (ROUTES[route], s, reason), "ValueError"))
        return bad, cls, False
    if route != "Version" and acc and verdict is not False:
        bad += read_routes(v, s)
    if verdict is False and acc:
        bad.append(("accept/invalid-accepted/" + reason, "Version(%r) raises ValueError (%s)" % (s, reason),
                    "accepted: str, epoch, upstream, revision = %r" % (observe(v),)))
    elif verdict is True and not acc:
        bad.append(("accept/valid-rejected/" + reason, "Version(%r) is constructed (%s)" % (s, reason), "ValueError"))
    if acc and verdict is not False:
        got = observe(v)
        full, e, u, r = got
        if full != s:
            bad.append(("lossless/str", "str(Version(%r)) == %r" % (s, s), full))
        rec = versyntax.recompose(e, u, r) if isinstance(u, str) else None
        if rec != s:
            bad.append(("lossless/recompose", "[epoch:]upstream[-revision] of Version(%r) recomposes to it" % s,
                        "epoch, upstream, revision = %r -> %r" % ((e, u, r), rec)))
        if verdict is True and (e, u, r) != versyntax.parts(s):
            bad.append(("decompose/parts/" + reason, "epoch, upstream, revision of %r = %r" % (s, versyntax.parts(s)), (e, u, r)))
    if verdict is True:
        nontrivial = acc and reason != "plain"
    else:
        nontrivial = all(versyntax.char_class(c) in ("digit", "letter", "punct", "hyphen", "colon") for c in s) and s != ""
    return bad, cls, bool(nontrivial)


# ------------------------------------------------------------------------------------------------
# assignments: the model

def model_start(s):
    assert versyntax.valid(s) is True, s
    return (s,) + versyntax.parts(s)


def model_step(state, attr, x):
    """-> ("accept", new state) | ("reject", reason) | ("dontcare", reason)"""
    full, e, u, r = state
    if attr == "full_version":
        new = str(x)
    else:
        xs = None if x is None else str(x)
        if attr == "epoch":
            e = xs
        elif attr == "upstream_version":
            u = xs
        else:                           # debian_revision and its old name debian_version
            r = xs
        if u is None:
            return ("reject", "upstream-is-none")
        new = versyntax.recompose(e, u, r, omit_empty_revision=True)
    verdict, reason = versyntax.classify(new)
    if verdict is None:
        return ("dontcare", reason)
    if verdict is False:
        return ("reject", reason, new)
    return ("accept", (new,) + versyntax.parts(new))


def value_class(x):
    if isinstance(x, int) and not isinstance(x, bool):
        return "int"
    return {None: "None", "": "empty"}.get(x) or ("newline" if "\n" in x else "blank" if x.strip() == "" else
                                                   "nonascii" if ord(max(x)) > 127 else
                                                   "colon" if ":" in x else "hyphen" if "-" in x else "plain")


# (how the object came into being, how the assignment is made): the histories are replayed along each of them
ASSIGN_ROUTES = [("NativeVersion", "setattr"), ("BaseVersion", "setattr"), ("subclass", "setattr"), ("from-BaseVersion", "setattr"),
                 ("copy", "setattr"), ("deepcopy", "setattr"), ("pickle", "setattr"), ("changelog-block", "setattr"),
                 ("assign-full_version", "setattr"), ("Version", "dunder-setattr"), ("Version", "str-subclass-values"),
                 ("Version", "version-object-for-full_version")]


def _assign(v, attr, x, setter):
    if setter == "dunder-setattr":
        v.__setattr__(attr, x)
    elif setter == "str-subclass-values" and isinstance(x, str):
        setattr(v, attr, _Str(x))
    elif setter == "version-object-for-full_version" and attr == "full_version" and isinstance(x, str):
        from debian.debian_support import BaseVersion
        try:
            x = BaseVersion(x)
        except ValueError:
            pass                         # not a version: assigned as the string it is
        setattr(v, attr, x)
    else:
        setattr(v, attr, x)


def run_history(start, ops, route="Version", setter="setattr"):
    """Replays the whole history on a fresh object next to the model, checking every step; stops at the
    first step that is a violation or reaches a don't-care string.
    -> (index of the last step executed, status of that step, violations of that step, rolled back before it?)
    status: "accept" | "reject" | "dontcare" | "violation" | "start" (empty history)"""
    from debian.debian_support import Version
    plain = route == "Version" and setter == "setattr"
    original = None
    if route in ("copy", "deepcopy"):
        original = Version(start)
        v = copy.copy(original) if route == "copy" else copy.deepcopy(original)
    elif route == "assign-full_version":
        v = Version("0")
        v.full_version = start
    else:
        v = construct(route, start)
    m = model_start(start)
    if observe(v) != m:
        return (-1, "violation", [("assign/start", "Version(%r) has str, epoch, upstream, revision = %r" % (start, m), observe(v))], False)
    rolled = False                      # has a rejected assignment been rolled back before the current step?
    after_this = False
    idx, status, bad = -1, "start", []
    for idx, (attr, x) in enumerate(ops):
        rolled = after_this
        exp = model_step(m, attr, x)
        before = observe(v)
        try:
            _assign(v, attr, x, setter)
            res = "ok"
        except Exception as ex:         # anything but ValueError is judged below
            res = type(ex).__name__
        if exp[0] == "dontcare":
            return (idx, "dontcare", [], rolled)
        try:
            after = observe(v)
        except Exception as ex:
            after = "%s: %s" % (type(ex).__name__, ex)
        if not plain and isinstance(after, tuple):
            # the other ways of reading agree with the four that the model is compared with
            rr = read_routes(v, after[0])
            if rr:
                return (idx, "violation", [("assign/%s/%s" % (attr, sig), exp_, obs) for sig, exp_, obs in rr[:1]], rolled)
            if original is not None and observe(original) != model_start(start):
                return (idx, "violation", [("assign/%s/original-changed-through-its-copy" % attr, model_start(start),
                                            observe(original))], rolled)
        what = "Version(%r)%s; v.%s = %r" % (start, "".join("; v.%s = %r" % (a, b) for a, b in ops[:idx]), attr, x)
        if exp[0] == "accept":
            if res != "ok" or after != exp[1]:
                sig = "assign/%s/%s/should-accept/%s" % (attr, value_class(x), res if res != "ok" else "wrong-state")
                return (idx, "violation", [(sig, "%s gives str, epoch, upstream, revision = %r" % (what, exp[1]),
                                            "%s; %r" % ("no exception" if res == "ok" else "raises " + res, after))], rolled)
            m = exp[1]
            status = "accept"
        else:
            if res == "ok" and len(exp) > 2 and isinstance(after, tuple) and after[0] == exp[2]:
                # the acceptor took an invalid recomposition: the same defect as Version(<that string>)
                return (idx, "violation", [("accept/invalid-accepted/" + exp[1], "%s raises ValueError: %r is not a version (%s)"
                                            % (what, exp[2], exp[1]), "accepted: %r" % (after,))], rolled)
            if res != "ValueError" or after != before:
                # a failed rollback does not depend on the value; the exception class tells None from the rest
                sig = "assign/%s/should-reject/%s/%s" % (attr, res, "state-changed" if after != before else "state-kept")
                return (idx, "violation", [(sig, "%s raises ValueError (%s) and leaves %r" % (what, exp[1], before),
                                            "%s; %r" % ("no exception" if res == "ok" else "raises " + res, after))], rolled)
            after_this = True
            status = "reject"
    return (idx, status, bad, rolled)


# ------------------------------------------------------------------------------------------------

def run_unit(u, tier, seed):
    part = core.Part()
    if u["k"] in ("ladder", "size"):
        return run_ladder_unit(part, u, tier, seed)
    if u["k"] == "deep":
        return run_deep_unit(part, u, tier, seed)
    if u["k"] == "accept":
        return unit_accept(part, u, seed)
    if u["k"] == "sweep":
        return unit_sweep(part, u, seed)
    if u["k"] == "numeric":
        return unit_numeric(part, u, tier, seed)
    if u["k"] == "route-accept":
        return unit_route_accept(part, u, tier, seed)
    if u["k"] == "route-assign":
        return unit_route_assign(part, u, tier, seed)
    if u["k"] == "numeric-assign":
        return unit_numeric_assign(part, u, tier, seed)
    return unit_assign(part, u, seed)


def _numeric(bad):
    return [("numeric/" + sig, exp, obs) for sig, exp, obs in bad]


def unit_numeric(part, u, tier, seed):
    pos, template = versyntax.DIGIT_RUN_TEMPLATES[u["template"]]
    template = tr(template, seed)
    part.max_depth = 1
    for run in digit_runs(tier):
        for z, padded in enumerate(versyntax.zero_padded(run)):
            s = versyntax.digit_run_string(template, padded)
            assert versyntax.valid(s) is True, s
            bad, cls, nontrivial = run_string(s)
            part.states += 1
            part.transitions += 1
            part.traces += 1
            part.evaluations += 1
            part.outcomes["numeric/%s/%s" % (pos, cls)] += 1
            part.nontrivial += nontrivial
            part.extra["numeric boundary strings"] += 1
            case = {"k": "string", "s": s, "family": "numeric"}
            for sig, exp, obs in _numeric(bad):
                part.violation(sig, case, exp, obs, rank=len(s))
    part.sample(case)
    return part


def numeric_values(tier, bare_only=False, basic=False):
    out = []
    for run in (versyntax.digit_runs(tier) if basic else digit_runs(tier)):
        out.append(run)
        if not bare_only:
            out += versyntax.zero_padded(run)[1:]
            if str(int(run)) == run:
                out.append(int(run))
    return out


def unit_numeric_assign(part, u, tier, seed):
    start = tr(NUM_STARTS[u["start"]], seed)
    part.max_depth = u["len"]
    if u["len"] == 1:
        hists = [[(a, x)] for a in NUM_ATTRS for x in numeric_values(tier)]
    else:
        firsts = [(NUM_ATTRS[u["attr"]], x) for x in numeric_values(tier, bare_only=True)]
        if "lo" in u:
            firsts = firsts[u["lo"]:u["hi"]]       # thorough: the first steps are spread over several units
        # quick: the second run ranges over the same list as the first; thorough: over the basic list
        seconds = ([(a, x) for a in NUM_ATTRS for x in numeric_values(tier, bare_only=True, basic=True)] +
                   [(a, tr(x, seed)) for a in ATTRS for x in VALUES])
        hists = [[f, g] for f in firsts for g in seconds]
    for h in hists:
        idx, status, bad, rolled = run_history(start, h)
        if idx < len(h) - 1:
            continue                    # the first step is a violation: reported by the history of length 1
        part.states += 1
        part.transitions += 1
        part.traces += 1
        part.evaluations += 1
        attr, x = h[-1]
        part.outcomes["numeric-assign/%s/%s/%s" % (attr, value_class(x), status)] += 1
        part.extra["numeric boundary histories"] += 1
        case = {"k": "history", "start": start, "ops": [list(op) for op in h], "family": "numeric"}
        if rolled or any(str(y).isdigit() and int(str(y)) >= 2 ** 31 for _a, y in h if y is not None):
            part.nontrivial += 1
        for sig, exp, obs in _numeric(bad):
            part.violation(sig, case, exp, obs, rank=sum(len(str(y)) for _a, y in h))
    part.sample(case)
    return part


def route_n(tier):
    return 3 if tier == "quick" else 5


def route_depth(tier, si):
    """history depth of the route-assign units: quick - depth 2 from the start with all three parts, 1 from the others"""
    if tier == "quick":
        return 2 if si == 1 else 1
    return 3


def unit_route_accept(part, u, tier, seed):
    syms = [tr(x, seed) for x in SYMBOLS]
    route = u["route"]
    wrap = _via(route)
    n = route_n(tier)
    part.max_depth = n
    todo = ["".join(t) for k in range(0, n + 1) for t in itertools.product(syms, repeat=k)]
    # a few longer strings of each kind (the numeric templates with a boundary run, the sweep templates)
    todo += [tr(t, seed) for t in SWEEP_TEMPLATES] + [versyntax.digit_run_string(tr(t, seed), "4294967296")
                                                       for _p, t in versyntax.DIGIT_RUN_TEMPLATES]
    for s in todo:
        bad, cls, nontrivial = run_string(s, route)
        part.states += 1
        part.transitions += 1
        part.traces += 1
        part.evaluations += 1
        part.outcomes["via-%s/%s" % (route, cls.rsplit("/", 1)[0])] += 1
        part.nontrivial += nontrivial
        for sig, exp, obs in wrap(bad):
            part.violation(sig, {"k": "string", "s": s, "route": route}, exp, obs, rank=len(s))
    part.sample({"k": "string", "s": todo[len(todo) // 3], "route": route})
    return part


def unit_route_assign(part, u, tier, seed):
    start = tr(STARTS[u["start"]], seed)
    route, setter = u["route"], u["setter"]
    wrap = _via(route, setter)
    allops = [(a, tr(x, seed)) for a in ATTRS for x in VALUES]
    depth = route_depth(tier, u["start"])
    part.max_depth = depth
    dead = set()
    for length in range(1, depth + 1):
        for h in itertools.product(allops, repeat=length):
            h = list(h)
            if any(repr(h[:k]) in dead for k in range(1, length)):
                continue
            idx, status, bad, rolled = run_history(start, h, route, setter)
            if idx < length - 1 or status == "start":
                dead.add(repr(h[:idx + 1]))
                continue
            part.transitions += 1
            part.traces += 1
            part.evaluations += 1
            attr, x = h[-1]
            part.outcomes["via-%s%s/assign/%s/%s" % (route, "" if setter == "setattr" else "+" + setter, attr, status)] += 1
            case = {"k": "history", "start": start, "ops": [list(op) for op in h], "route": route, "setter": setter}
            if status == "violation":
                dead.add(repr(h))
                for sig, exp, obs in wrap(bad):
                    part.violation(sig, case, exp, obs, rank=length)
                continue
            if status == "dontcare":
                dead.add(repr(h))
                continue
            part.states += 1
            if rolled:
                part.nontrivial += 1
            if len(part.samples) < 2 and status == "reject":
                part.sample(case)
    return part


def unit_accept(part, u, seed):
    syms = [tr(s, seed) for s in SYMBOLS]
    if u["prefix"] is None:
        todo = [t for n in range(0, u["len"] + 1) for t in itertools.product(syms, repeat=n)]
    else:
        pre = tuple(syms[i] for i in u["prefix"])
        tail = [syms[i] for i in u["alphabet"]] if "alphabet" in u else syms
        todo = [pre + t for t in itertools.product(tail, repeat=u["len"] - len(pre))]
        if u.get("skip_structure"):
            # (the strings over the structure symbols alone belong to the structure units)
            st = set(syms[i] for i in STRUCTURE_SYMBOLS)
            todo = [t for t in todo if not st.issuperset(t)]
    for t in todo:
        s = "".join(t)
        bad, cls, nontrivial = run_string(s)
        part.states += 1
        part.transitions += 1 if s else 0
        part.traces += 1
        part.evaluations += 1
        part.outcomes[cls] += 1
        part.nontrivial += nontrivial
        for sig, exp, obs in bad:
            part.violation(sig, {"k": "string", "s": s}, exp, obs)
    part.max_depth = u["len"]
    if todo:
        part.sample({"k": "string", "s": "".join(todo[len(todo) // 3])})
    return part


def unit_assign(part, u, seed):
    start = tr(STARTS[u["start"]], seed)
    allops = [(a, tr(x, seed)) for a in ATTRS for x in u.get("values", VALUES)]
    length = u["len"]
    if u["first"] is None:
        hists = [[op] for op in allops]
        idx, status, bad, _ = run_history(start, [])
        part.traces += 1
        part.evaluations += 1
        if status == "violation":
            for sig, exp, obs in bad:
                part.violation(sig, {"k": "history", "start": start, "ops": []}, exp, obs)
            return part
        part.states += 1                # the start state itself (empty history)
    else:
        hists = [[allops[u["first"]]] + list(t) for t in itertools.product(allops, repeat=length - 1)]
    part.max_depth = length
    dead = set()                        # repr of prefixes known not to be extendable
    for h in hists:
        if length > 1:
            skip = False
            for n in range(1, length):
                if repr(h[:n]) in dead:
                    skip = True
                    break
            if skip:
                continue
        idx, status, bad, rolled = run_history(start, h)
        if idx < length - 1 or status == "start":
            # a proper prefix is a violation or a don't-care string: reported/counted by the shorter history
            dead.add(repr(h[:idx + 1]))
            continue
        part.transitions += 1
        part.traces += 1
        part.evaluations += 1
        attr, x = h[-1]
        part.outcomes["assign/%s/%s/%s" % (attr, value_class(x), status)] += 1
        case = {"k": "history", "start": start, "ops": [list(op) for op in h]}
        if status == "violation":
            for sig, exp, obs in bad:
                part.violation(sig, case, exp, obs)
            continue
        if status == "dontcare":
            part.extra["histories_stopped_at_dontcare_string"] += 1
            continue
        part.states += 1
        if rolled:
            part.nontrivial += 1
        if len(part.samples) < 3 and (status == "reject" or rolled):
            part.sample(case)
    return part


# ------------------------------------------------------------------------------------------------
# beyond the small scope: count ladders over the structure of a version (n runs / dotted components / hyphens / colons,
# the generator of C03), a size ladder over the length of one run, and deep, narrow assignment histories

LADDER_SMALL = list(range(1, 41))
LADDER_BIG = [63, 64, 65, 100, 127, 128, 129, 255, 256, 257, 500, 999, 1000, 1001]
LADDER_THOROUGH = [1025, 2500, 2501, 5000]
LADDER_FOREIGN = ["_", " ", "\n", "é"]
SIZE_RUN = [997, 998, 999, 1000, 4095, 4096, 4097, 16383, 16384, 16385, 65535, 65536, 65537, 131071, 131072, 131073, 262143, 262144, 262145]
DEEPN_OPS = [("epoch", None), ("epoch", "1"), ("upstream_version", "2.0"), ("upstream_version", None), ("upstream_version", "x:y"),
             ("debian_revision", "1"), ("debian_revision", None), ("full_version", "1\n")]
SIZE_QUICK_MAX = 65537        # the recogniser of the model reads a string character by character (0.1 s for 262 144)
DEEPN_DEPTH = {"quick": 5, "thorough": 6}
DEEPN_STARTS = [0, 1]


def ladder_families():
    from . import c03
    return c03.LADDER_FAMILIES


def ladder_counts(tier):
    return LADDER_SMALL + LADDER_BIG + ([] if tier == "quick" else LADDER_THOROUGH)


def ladder_strings(desc):
    """-> [(name, string)] of one (family, count): the valid variants of C03's generator and strings made invalid by ONE
    foreign character (first, after the first run, in the middle, before the last character, last) or a non-numeric epoch"""
    from . import c03
    t = c03.translation(desc.get("seed", 0))
    if desc["ladder"] == "size":
        L, pos = desc["n"], desc["pos"]
        runs = {"digits": "1" * L, "zeros": "0" * L, "letters": "a" * L, "tildes": "~" * L, "mixed": ("1a.+~" * (L // 5 + 1))[:L]}
        out = []
        for nm, r in runs.items():
            r = r.translate(t)
            if pos == "epoch" and nm not in ("digits", "zeros"):
                continue
            text = {"upstream": "%s", "component": "1.%s", "revision": "1.0-%s", "epoch": "%s:1.0-1", "full": "1:2.%s-3"}[pos] % r
            out.append((nm, text))
            if nm in ("digits", "mixed"):
                k = len(text) - (2 if pos in ("full",) else 0)
                out += [(nm + "+foreign-last", text + "_"), (nm + "+newline-last", text + "\n"),
                        (nm + "+foreign-in-the-run", text[:k - 1] + "_" + text[k - 1:]), (nm + "+foreign-first", "_" + text)]
        return out
    valid = c03.ladder_variants(desc["pos"], desc["sep"], desc["start"], desc["n"], t)
    out = list(valid)
    base = valid[0][1]
    first_run_end = 1
    while first_run_end < len(base) and (base[first_run_end].isdigit() == base[0].isdigit()) and base[first_run_end] not in ":-":
        first_run_end += 1
    for i, c in enumerate(LADDER_FOREIGN):
        c = tr(c, desc.get("seed", 0))
        out.append(("base+%s-last" % i, base + c))
        if i < 2:
            out.append(("base+%s-before-the-last-character" % i, base[:-1] + c + base[-1]))
            out.append(("base+%s-mid" % i, base[:len(base) // 2] + c + base[len(base) // 2:]))
            out.append(("base+%s-after-the-first-run" % i, base[:first_run_end] + c + base[first_run_end:]))
            out.append(("base+%s-first" % i, c + base))
    if desc["sep"] == ":":
        out.append(("epoch-not-a-number", "x" + base))
        out.append(("no-epoch", base.replace(":", ".", 1)))
    return out


def ladder_histories(desc):
    """assignment histories of one (family, count): the part the ladder is about is assigned (valid), then once more with a
    foreign character at its end (rejected, rolled back to the long value)"""
    from . import c03
    t = c03.translation(desc.get("seed", 0))
    base = c03.ladder_variants(desc["pos"], desc["sep"], desc["start"], desc["n"], t)[0][1]
    start = tr(STARTS[1], desc.get("seed", 0))
    bad = tr("_", desc.get("seed", 0))
    if desc["pos"] == "revision":
        val, attr = base[len("1.0-"):], "debian_revision"
    else:
        val, attr = (base[2:] if desc["sep"] == ":" else base), "upstream_version"
    full = ("1:" + base) if ":" not in base else base
    return [("assign-part", [(attr, val)]),
            ("assign-part-then-invalid", [(attr, val), (attr, val + bad)]),
            ("assign-part-then-invalid-then-other", [(attr, val), (attr, val + bad), ("epoch", "7")]),
            ("assign-part-then-none", [(attr, val), ("upstream_version", None), (attr, val)]),
            ("assign-full", [("full_version", full)]),
            ("assign-full-then-invalid", [("full_version", full), ("full_version", full + "\n"), ("debian_revision", None)]),
            ("assign-old-name", [("debian_version", val)] if attr == "debian_revision" else [("full_version", full), ("epoch", None)])], start


def _ladder_pre(desc):
    if desc["ladder"] == "size":
        return "size/%s-run/" % desc["pos"]
    return "ladder/%s/sep-%s-first-%s/" % ("hyphens" if desc["sep"] == "-" else "colons" if desc["sep"] == ":" else "runs-" + desc["pos"],
                                           desc["sep"], desc["start"])


def _shorten(x):
    x = x if isinstance(x, str) else repr(x)
    return x if len(x) <= 400 else x[:200] + " ...[%d characters]... " % (len(x) - 400) + x[-200:]


def exec_ladder(case):
    """one string or one history of a ladder / size case -> [(sig, expected, observed)]"""
    desc = case
    pre = _ladder_pre(desc)
    if "hist" in case:
        hists, start = ladder_histories(desc)
        ops = dict(hists)[case["hist"]]
        return [(pre + sig, _shorten(e), _shorten(o)) for sig, e, o in run_history(start, ops)[2]]
    s = dict(ladder_strings(desc))[case["string"]]
    return [(pre + sig, _shorten(e), _shorten(o)) for sig, e, o in run_string(s)[0]]


def run_ladder_unit(part, u, tier, seed):
    if u["k"] == "size":
        descs = [{"ladder": "size", "pos": u["pos"], "n": L, "seed": seed} for L in SIZE_RUN if tier != "quick" or L <= SIZE_QUICK_MAX]
    else:
        pos, sep, start = ladder_families()[u["fam"]]
        descs = [{"ladder": "count", "pos": pos, "sep": sep, "start": start, "n": n, "seed": seed} for n in u["ns"]]
    case = None
    for desc in descs:
        pre = _ladder_pre(desc)
        for name, s in ladder_strings(desc):
            bad, cls, nontrivial = run_string(s)
            part.states += 1
            part.transitions += 1
            part.traces += 1
            part.evaluations += 1
            part.outcomes["%s/%s" % (pre.split("/")[0], cls)] += 1
            part.nontrivial += nontrivial
            case = dict(desc, string=name)
            for sig, exp, obs in bad:
                part.violation(pre + sig, case, _shorten(exp), _shorten(obs), rank=1000 + desc["n"])
        if desc["ladder"] == "count":
            hists, start = ladder_histories(desc)
            for name, ops in hists:
                idx, status, bad, rolled = run_history(start, ops)
                part.states += 1
                part.transitions += len(ops)
                part.traces += 1
                part.evaluations += 1
                part.outcomes["ladder/assign/%s/%s" % (name, status if idx == len(ops) - 1 else "stopped-early")] += 1
                part.nontrivial += 1 if rolled else 0
                for sig, exp, obs in bad:
                    part.violation(pre + sig, dict(desc, hist=name), _shorten(exp), _shorten(obs), rank=1000 + desc["n"])
            part.max_depth = max(part.max_depth, 3)
    part.extra["%s cases (beyond the small scope)" % ("size-ladder" if u["k"] == "size" else "count-ladder")] += len(descs)
    part.sample(case)
    return part


def run_deep_unit(part, u, tier, seed):
    """all histories over DEEPN_OPS of length <= depth that start with u['first'] (the unit without a first pair: lengths 0, 1)"""
    start = tr(STARTS[u["start"]], seed)
    ops = [(a, tr(x, seed)) for a, x in DEEPN_OPS]
    depth = DEEPN_DEPTH[tier] - (1 if u["start"] == 0 else 0)      # the start without epoch and revision: one level less
    part.max_depth = depth
    dead = set()
    first = [ops[i] for i in u["first"]]
    case = None
    for length in (range(1, 2) if not first else range(2, depth + 1)):
        for rest in itertools.product(range(len(ops)), repeat=length - len(first)):
            if first and any((u["first"] + list(rest))[:k] and tuple((u["first"] + list(rest))[:k]) in dead for k in range(2, length)):
                continue
            idxs = u["first"] + list(rest)
            h = [ops[i] for i in idxs]
            idx, status, bad, rolled = run_history(start, h)
            if idx < length - 1 or status == "start":
                dead.add(tuple(idxs[:idx + 1]))
                continue
            part.transitions += 1
            part.traces += 1
            part.evaluations += 1
            part.outcomes["deep/assign/%s/%s" % (h[-1][0], status)] += 1
            case = {"k": "history", "start": start, "ops": [list(op) for op in h], "family": "deep"}
            if status == "violation":
                dead.add(tuple(idxs))
                for sig, exp, obs in bad:
                    part.violation("deep/" + sig, case, exp, obs, rank=500 + length)
                continue
            if status == "dontcare":
                dead.add(tuple(idxs))
                continue
            part.states += 1
            if rolled:
                part.nontrivial += 1
    part.extra["deep-narrow assignment histories"] += part.traces
    if case:
        part.sample(case)
    return part


def _via(route, setter="setattr"):
    tag = "via-%s%s/" % (route, "" if setter == "setattr" else "+" + setter)
    return lambda bad: [(tag + sig, exp, obs) for sig, exp, obs in bad]


def replay(case):
    if "ladder" in case:
        return exec_ladder(case)
    if case.get("family") == "deep":
        return [("deep/" + sig, e, o) for sig, e, o in run_history(case["start"], [tuple(op) for op in case["ops"]])[2]]
    wrap = _numeric if case.get("family") == "numeric" else list
    if case.get("route"):
        wrap = _via(case["route"], case.get("setter", "setattr"))
    if case["k"] == "string":
        return wrap(run_string(case["s"], case.get("route", "Version"))[0])
    return wrap(run_history(case["start"], [tuple(op) for op in case["ops"]], case.get("route", "Version"),
                            case.get("setter", "setattr"))[2])


def repro_py(case):
    if "ladder" in case:
        if "hist" in case:
            hists, start = ladder_histories(case)
            case = {"k": "history", "start": start, "ops": [list(op) for op in dict(hists)[case["hist"]]]}
        else:
            case = {"k": "string", "s": dict(ladder_strings(case))[case["string"]]}
    if case["k"] == "string":
        verdict, reason = versyntax.classify(case["s"])
        return ("from debian.debian_support import Version\n"
                "s = %r          # %s: %s\n"
                "try:\n    v = Version(s)\nexcept ValueError:\n    v = None\n"
                "%s\n"
                "if v is not None:\n"
                "    assert str(v) == s\n"
                "    e, u, r = v.epoch, v.upstream_version, v.debian_revision\n"
                "    assert (e + ':' if e is not None else '') + u + ('-' + r if r is not None else '') == s\n"
                % (case["s"], {True: "valid", False: "invalid", None: "either"}[verdict], reason,
                   {True: "assert v is not None\nassert (v.epoch, v.upstream_version, v.debian_revision) == %r" % (versyntax.parts(case["s"]),),
                    False: "assert v is None, 'accepted an invalid version string'", None: ""}[verdict]))
    ops = [tuple(op) for op in case["ops"]]
    m = model_start(case["start"])
    lines = ["from debian.debian_support import Version", "obs = lambda v: (str(v), v.epoch, v.upstream_version, v.debian_revision)",
             "v = Version(%r)" % case["start"]]
    for attr, x in ops:
        exp = model_step(m, attr, x)
        if exp[0] == "accept":
            m = exp[1]
            lines += ["v.%s = %r" % (attr, x), "assert obs(v) == %r, obs(v)" % (m,)]
        elif exp[0] == "reject":
            lines += ["before = obs(v)", "try:\n    v.%s = %r\n    raise AssertionError('accepted')\nexcept ValueError:\n    pass" % (attr, x),
                      "assert obs(v) == before, (before, obs(v))"]
        else:
            lines += ["v.%s = %r   # either outcome is allowed here" % (attr, x)]
            break
    return "\n".join(lines) + "\n"
