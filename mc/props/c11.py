"""C11 - list views of a field read the exact values and write back only what changed (Engine B + A)."""
import itertools

from .. import core

ID = "C11"
LEVEL = "model_checking"
RULE = ("field values = all concatenations of <= L layout pieces (words, blanks, tabs, separators, continuation breaks, "
        "comment lines) that form a valid non-empty field; states = distinct value layouts (reads) plus distinct "
        "(layout, edit history) pairs, transitions = one list edit applied to model and implementation, traces = "
        "complete edit histories followed by dump + fresh parse; non-trivial = layouts with >= 2 values or a line break")
BUDGET = {"quick": 240, "thorough": 3000}


def bounds(tier):
    return {"pieces_whitespace_list": PIECES["ws"](0), "pieces_comma_list": PIECES["comma"](0),
            "read_layout_pieces": 4 if tier == "quick" else 5,
            "edit_depth_1_layout_pieces": 4 if tier == "quick" else 5,
            "edit_depth_2_layout_pieces": 3 if tier == "quick" else 4,
            "edit_depth_3_layout_pieces": 0 if tier == "quick" else 2,
            "edits": "append, remove(v), replace(v,z), ref.value=z, ref.remove(); depth 2 inside one `with` block and across two, through fresh view objects, one shared view object, two alternating view objects, and with the first block aborted by an exception"}


def assumptions():
    return ["value = text after 'F:' up to the end of the field; comment lines dropped; comma list items stripped",
            "empty / whitespace-only field values are outside the domain", "removing the last remaining value may be "
            "rejected with ValueError", "continuation lines must contain non-blank text (deb822 syntax)"]


PIECES = {
    "ws": lambda seed: [core.rep(seed, ["a", "q", "0", "é"]), core.rep(seed, ["bb", "x1", "b-b", "üü"]), "#h",
                        " ", "  ", "\t", "\n ", "\n\t", "\n#h\n "],
    "comma": lambda seed: [core.rep(seed, ["a", "q", "0", "é"]), core.rep(seed, ["b c", "x 1", "b  c", "ü ü"]), "#h",
                           ",", ", ", " ", "\n ", "\n#h\n "],
}


def _content_lines(v):
    """the first line follows the colon and is never a comment; later lines are comments iff '#' is in column 0"""
    lines = v.split("\n")
    return lines[:1] + [l for l in lines[1:] if not l.startswith("#")]


def valid_value(v):
    lines = v.split("\n")
    if not "".join(_content_lines(v)).strip():
        return False
    for l in lines[1:]:
        if l.startswith("#"):
            continue
        if not l or l[0] not in " \t" or not l.strip():
            return False
    if len(lines) > 1 and lines[-1].startswith("#"):
        return False
    return True


def split_oracle(v, interp):
    t = "\n".join(_content_lines(v))
    if interp == "comma":
        return [x.strip() for x in t.split(",") if x.strip()]
    return t.split()


def first_piece(v, pieces):
    best = None
    for p in pieces:
        if v.startswith(p) and (best is None or len(p) > len(best)):
            best = p
    return best


def layouts(interp, first, maxlen, seed):
    """all valid values whose canonical first piece is `first` (units partition the value strings)"""
    pieces = PIECES[interp](seed)
    seen = set()
    for L in range(1, maxlen + 1):
        for seq in itertools.product(pieces, repeat=L - 1):
            v = first + "".join(seq)
            if v in seen:
                continue
            seen.add(v)
            if first_piece(v, pieces) != first or not valid_value(v):
                continue
            yield v, L


def sweep_chars(interp):
    cs = [chr(c) for c in range(0x21, 0x7f)] + list("éüЖ字ß")
    return [c for c in cs if not (interp == "comma" and c == ",")]


def units(tier, seed):
    out = []
    for interp in ("ws", "comma"):
        for first in PIECES[interp](seed):
            out.append({"interp": interp, "first": first})
        cs = sweep_chars(interp)
        out += [{"interp": interp, "sweep": cs[i:i + 25]} for i in range(0, len(cs), 25)]
    return out


def edits_for(vals, interp):
    yield ("append", "z")
    if interp == "comma":
        yield ("append", "y z")
    for i, v in enumerate(vals):
        if v not in vals[:i]:
            yield ("remove", v)
            yield ("replace", v, "z")
    for i in range(len(vals)):
        yield ("refset", i, "z")
        yield ("refremove", i)


def model_edit(vals, e):
    vals = list(vals)
    if e[0] == "refread":
        return vals
    if e[0] == "append":
        vals.append(e[1])
    elif e[0] == "remove":
        vals.remove(e[1])
    elif e[0] == "replace":
        vals[vals.index(e[1])] = e[2]
    elif e[0] == "refset":
        vals[e[1]] = e[2]
    elif e[0] == "refremove":
        del vals[e[1]]
    return vals


def impl_edit(lst, e):
    if e[0] == "refread":
        got = [r.value for r in lst.iter_value_references()]
        want = list(lst)
        if got != want:
            raise AssertionError("values read through references %r differ from the list %r" % (got, want))
        return
    if e[0] == "append":
        lst.append(e[1])
    elif e[0] == "remove":
        lst.remove(e[1])
    elif e[0] == "replace":
        lst.replace(e[1], e[2])
    elif e[0] == "refset":
        list(lst.iter_value_references())[e[1]].value = e[2]
    elif e[0] == "refremove":
        list(lst.iter_value_references())[e[1]].remove()


def _interp(name):
    from debian._deb822_repro import LIST_SPACE_SEPARATED_INTERPRETATION, LIST_COMMA_SEPARATED_INTERPRETATION
    return LIST_SPACE_SEPARATED_INTERPRETATION if name == "ws" else LIST_COMMA_SEPARATED_INTERPRETATION


def _parse(text):
    from debian._deb822_repro import parse_deb822_file
    return parse_deb822_file(text.splitlines(True), accept_files_with_error_tokens=True)


def _wellformed(f, place="mid"):
    if f.find_first_error_element() is not None:
        return False
    ps = list(f)
    return len(ps) == 1 and [str(k) for k in ps[0].keys()] == (["X", "F", "Y"] if place == "mid" else ["X", "F"])


class _Abort(Exception):
    pass


def run_case(case):
    """-> (violations, final model list or None)"""
    interp, v, sessions = case["interp"], case["value"], case["sessions"]
    I = _interp(interp)
    place = case.get("place", "mid")
    doc = "X: 1\nF:" + v + ("\nY: 2\n" if place == "mid" else "")
    try:
        f = _parse(doc)
        ok = _wellformed(f, place)
    except Exception as e:
        return [("list/valid-doc-raises/" + interp, "parses", "%s: %s" % (type(e).__name__, e))], None
    if not ok:
        return [("list/valid-doc-rejected/" + interp, "one paragraph X F Y, no error element", f.dump())], None
    p = next(iter(f))
    vals = split_oracle(v, interp)
    if not sessions:
        try:
            with p.as_interpreted_dict_view(I)["F"] as lst:
                got = list(lst)
        except Exception as e:
            return [("list/read-raises/" + interp, vals, "%s: %r" % (type(e).__name__, e))], None
        if got != vals:
            return [("list/read/" + interp, vals, got)], None
        if f.dump() != doc:
            return [("list/noop-changed/" + interp, doc, f.dump())], None
        return [], vals
    last = None
    views = case.get("views", "fresh")
    vobjs = [p.as_interpreted_dict_view(I), p.as_interpreted_dict_view(I)]
    prev_dump = doc
    for si, sess in enumerate(sessions):
        view = p.as_interpreted_dict_view(I) if views == "fresh" else vobjs[0] if views == "same" else vobjs[si % 2]
        abort = bool(sess) and tuple(sess[-1]) == ("abort",)
        edits = sess[:-1] if abort else sess
        before = vals
        last = ("noop",)
        try:
            with view["F"] as lst:
                for e in edits:
                    last = e
                    vals = model_edit(vals, e)
                    impl_edit(lst, e)
                    if case.get("observe"):
                        got = list(lst)
                        if got != vals:
                            return [("list/%s/wrong-open-list/%s" % (e[0], interp), vals, got)], None
                if abort:
                    raise _Abort()
        except _Abort:
            vals = before          # a with-block left by an exception writes nothing
            last = ("abort",)
        except ValueError as ex:
            if not vals:
                return [], None           # removing the only value may be refused
            return [("list/%s/raises/%s" % (last[0], interp), vals, "ValueError: %s" % ex)], None
        except Exception as ex:
            return [("list/%s/raises/%s" % (last[0], interp), vals, "%s: %r" % (type(ex).__name__, ex))], None
        out = f.dump()
        sig = "list/%s/%%s/%s" % (last[0], interp)
        if (abort or all(e[0] == "refread" for e in edits)) and out != prev_dump:
            return [(sig % "document-changed", prev_dump, out)], None
        if place != "mid":
            continue          # (only no-change sessions are run on the unterminated last field)
        prev_dump = out
        try:
            f2 = _parse(out)
            ok = _wellformed(f2)
        except Exception as ex:
            return [(sig % "invalid-doc", "parses", "%s: %r on %r" % (type(ex).__name__, ex, out))], None
        if not ok:
            return [(sig % "invalid-doc", "one paragraph X F Y, no error element", out)], None
        if not vals and [e for e in edits if e[0] != "refread"] and not abort:
            return [(sig % "empty-list-accepted", "ValueError or a non-empty list", out)], None
        if not out.startswith("X: 1\nF:") or not out.endswith("\nY: 2\n") or out.count("\nY: 2\n") != 1:
            return [(sig % "nonlocal", "X: 1\\nF:...\\nY: 2\\n", out)], None
        p2 = next(iter(f2))
        if p2["X"] != "1" or p2["Y"] != "2":
            return [(sig % "nonlocal", "X=1 Y=2", (p2["X"], p2["Y"]))], None
        try:
            got = list(p2.as_interpreted_dict_view(I)["F"])
            live = list(p.as_interpreted_dict_view(I)["F"])
            same = list(view["F"]) if views != "fresh" else live
        except Exception as ex:
            return [(sig % "reread-raises", vals, "%s: %r on %r" % (type(ex).__name__, ex, out))], None
        if got != vals:
            return [(sig % "wrong-list", vals, "%r from %r" % (got, out))], None
        if live != vals:
            return [(sig % "wrong-live-list", vals, live)], None
        if same != vals:
            return [(sig % "wrong-list-through-the-same-view", vals, same)], None
    return [], vals


def run_sweep(part, interp, chars):
    """one unusual character at a time inside the words of a list (read, no-op, and every depth-1 edit)"""
    sep = " " if interp == "ws" else ", "
    for c in chars:
        words = ["x" + c + "y", c, c + c]
        layouts = [" " + sep.join(words), words[0] + sep + "m\n " + words[1], " m" + sep + "\n#k\n " + words[2] + sep.rstrip()]
        for v in layouts:
            if not valid_value(v):
                continue
            base = {"interp": interp, "value": v}
            bad, vals = run_case(dict(base, sessions=[]))
            part.states += 1
            part.transitions += 1
            part.traces += 1
            part.evaluations += 1
            for sig, exp, obs in bad:
                part.violation(sig, dict(base, sessions=[]), exp, obs, rank=1)
            if bad:
                continue
            part.nontrivial += 1
            for e in list(edits_for(vals, interp)) + [("append", "z" + c), ("replace", vals[0], c + "z")]:
                for observe in (False, True):
                    case = dict(base, sessions=[[e]], observe=observe)
                    bad, _v = run_case(case)
                    part.transitions += 1
                    part.traces += 1
                    part.evaluations += 1
                    for sig, exp, obs in bad:
                        part.violation(sig, case, exp, obs, rank=2)
            part.outcomes["sweep/" + interp] += 1
    part.sample({"interp": interp, "value": " x" + chars[0] + "y", "sessions": []})
    return part


def run_unit(u, tier, seed):
    part = core.Part()
    interp = u["interp"]
    if "sweep" in u:
        return run_sweep(part, interp, u["sweep"])
    Lread, L1, L2, L3 = (4, 4, 3, 0) if tier == "quick" else (5, 5, 4, 2)
    Lv = 2 if tier == "quick" else 3
    for v, L in layouts(interp, u["first"], max(Lread, L1), seed):
        base = {"interp": interp, "value": v}
        part.states += 1
        part.transitions += 1
        if L <= Lread:
            bad, vals = run_case(dict(base, sessions=[]))
            part.evaluations += 1
            part.traces += 1
            for sig, exp, obs in bad:
                part.violation(sig, dict(base, sessions=[]), exp, obs, rank=L)
            if bad:
                continue
            part.outcomes["read/%s/%d-values" % (interp, min(len(vals), 4))] += 1
            if len(vals) >= 2 or "\n" in v:
                part.nontrivial += 1
            if L == 3:
                part.sample(dict(base, sessions=[]))
            # sessions that change nothing (values read through references, an empty `with`), also on a field that is
            # the unterminated last line of the document: the dump must stay byte-identical
            for place in ("mid", "last-open"):
                if place == "last-open" and v.endswith(("\n", " ", "\t")):
                    continue
                for sessions in ([[("refread",)]], [[]], [[("refread",)], []]):
                    c = dict(base, sessions=sessions, place=place, views="same")
                    badn, _x = run_case(c)
                    part.evaluations += 1
                    part.traces += 1
                    for sig, exp, obs in badn:
                        part.violation(sig, c, exp, obs, rank=L)
        else:
            vals = split_oracle(v, interp)
        if L > L1:
            continue
        e1s = list(edits_for(vals, interp))
        for e1 in e1s:
            c = dict(base, sessions=[[e1]], observe=True)
            bad, v1 = run_case(c)
            part.evaluations += 1
            part.traces += 1
            for sig, exp, obs in bad:
                part.violation(sig, c, exp, obs, rank=10 * L + 1)
            c = dict(base, sessions=[[e1]])
            bad, v1 = run_case(c)
            part.evaluations += 1
            part.transitions += 1
            part.traces += 1
            part.states += 1
            for sig, exp, obs in bad:
                part.violation(sig, c, exp, obs, rank=10 * L + 1)
            if bad or v1 is None:
                part.outcomes["edit-refused" if not bad else "edit-violation"] += 1
                continue
            part.outcomes["edit/" + e1[0]] += 1
            if L <= Lv:
                # an aborted session followed by a no-change session through the same view object
                c = dict(base, sessions=[[e1, ("abort",)], []], views="same")
                bad, _x = run_case(c)
                part.evaluations += 1
                part.transitions += 1
                part.traces += 1
                for sig, exp, obs in bad:
                    part.violation(sig, c, exp, obs, rank=10 * L + 2)
                # ... or by an edit session (the aborted edits are gone: e2 ranges over edits of the original list)
                for e2 in edits_for(vals, interp):
                    for views in ("same", "fresh"):
                        c = dict(base, sessions=[[e1, ("abort",)], [e2]], views=views)
                        bad, _x = run_case(c)
                        part.evaluations += 1
                        part.transitions += 1
                        part.traces += 1
                        for sig, exp, obs in bad:
                            part.violation(sig, c, exp, obs, rank=10 * L + 2)
            if L > L2:
                continue
            for e2 in edits_for(v1, interp):
                variants = [([[e1, e2]], False, "fresh"), ([[e1, e2]], True, "fresh"), ([[e1], [e2]], False, "fresh")]
                if L <= Lv:
                    variants += [([[e1], [e2]], False, "same"), ([[e1], [e2]], False, "two")]
                for sessions, observe, views in variants:
                    c = dict(base, sessions=sessions, observe=observe, views=views)
                    bad, v2 = run_case(c)
                    part.evaluations += 1
                    part.transitions += 1
                    part.traces += 1
                    part.states += 1
                    for sig, exp, obs in bad:
                        part.violation(sig, c, exp, obs, rank=10 * L + 2)
                    if bad or v2 is None or L > L3 or len(sessions) == 1 or observe or views != "fresh":
                        continue
                    for e3 in edits_for(v2, interp):
                        for s3 in ([[e1], [e2, e3]], [[e1], [e2], [e3]]):
                            c = dict(base, sessions=s3)
                            bad, _v3 = run_case(c)
                            part.evaluations += 1
                            part.transitions += 1
                            part.traces += 1
                            part.states += 1
                            for sig, exp, obs in bad:
                                part.violation(sig, c, exp, obs, rank=10 * L + 3)
        part.max_depth = max(part.max_depth, 1 if L > L2 else (2 if L > L3 else 3))
    return part


def replay(case):
    case = dict(case, sessions=[[tuple(e) for e in s] for s in case["sessions"]])
    return run_case(case)[0]


def repro_py(case):
    return ("from debian._deb822_repro import parse_deb822_file, LIST_SPACE_SEPARATED_INTERPRETATION as WS, "
            "LIST_COMMA_SEPARATED_INTERPRETATION as CS\n"
            "doc = %r\nf = parse_deb822_file(doc.splitlines(True)); p = next(iter(f))\n"
            "with p.as_interpreted_dict_view(%s)['F'] as lst:\n    print(list(lst))  # sessions: %r\nprint(repr(f.dump()))\n"
            % ("X: 1\nF:" + case["value"] + "\nY: 2\n", "WS" if case["interp"] == "ws" else "CS", case["sessions"]))
