"""C11 - list views of a field read the exact values and write back only what changed (Engine B + A)."""
import contextlib
import io
import itertools
import sys

from .. import core
from . import _doc

ID = "C11"
LEVEL = "model_checking"
RULE = ("field values = all concatenations of <= L layout pieces (words, blanks, tabs, separators, continuation breaks, "
        "comment lines) that form a valid non-empty field; states = distinct value layouts (reads) plus distinct "
        "(layout, edit history) pairs, transitions = one list edit applied to model and implementation, traces = "
        "complete edit histories followed by dump + fresh parse; non-trivial = layouts with >= 2 values or a line break.  "
        "Route units: the same reads and histories with one of ROUTES (document shape, way of obtaining the list object, block "
        "style) in place of the default route; extra units: histories that use references taken at the start of a block, layout "
        "calls ahead of an append, and reformatting on write-back (non-trivial there = accepted edits); ladder units: "
        "generated values with 1..40, 63..1001 (thorough: 5000) values / lines / comment lines / separators and a value of "
        "997..65537 (thorough: 262145) characters: a state is one generated layout, transitions are its single edits")
BUDGET = {"quick": 240, "thorough": 3000}


def bounds(tier):
    return {"pieces_whitespace_list": PIECES["ws"](0), "pieces_comma_list": PIECES["comma"](0),
            "character_sweep": "three layouts per symbol c (words 'x<c>y', '<c>', '<c><c>' on one line, across a continuation line, after a comment line with a "
                               "trailing separator): read, unchanged session, every depth-1 edit and append/replace with a word containing c, observed and unobserved; c = "
                               "each printable ASCII character, 5 non-ASCII letters, and the marker words %r (whitespace lists also %r, comma lists also %r); a symbol that "
                               "str.split counts as white space (NBSP, U+2028/2029, VT, FF, FS/GS/RS/US, NEL, U+3000) stands inside words only ('x<c>y', 'm<c>m', 'x<c><c>y') "
                               "and is not put into new words of a whitespace list" % (MARKER_WORDS, MARKER_WORDS_WS, MARKER_WORDS_COMMA),
            "read_layout_pieces": 4 if tier == "quick" else 5,
            "edit_depth_1_layout_pieces": 4 if tier == "quick" else 5,
            "edit_depth_2_layout_pieces": 3 if tier == "quick" else 4,
            "edit_depth_3_layout_pieces": 0 if tier == "quick" else 2,
            "edits": "append, remove(v), replace(v,z), ref.value=z, ref.remove(); depth 2 inside one `with` block and across two, through fresh view objects, one shared view object, two alternating view objects, and with the first block aborted by an exception",
            "routes": "every (document shape, way of obtaining the list, block style) of ROUTES, one at a time against the same "
                      "oracle as the default route: reads on all layouts of <= %d pieces; sessions that change nothing and every "
                      "single edit on all layouts of <= %d pieces; where one list object is entered again for a second block, every "
                      "second edit as well (pure route: layouts of <= %d pieces, combined routes: <= %d); elsewhere a block left by "
                      "an exception followed by the same edit (layouts of <= %d pieces); after every block all ways of dumping "
                      "(dump(), dump(fd), convert_to_text(), iter_parts, paragraph.dump(), paragraph.dump(fd), the field's own "
                      "text) must agree and the closed list object must still read the edited list"
                      % ((3, 2, 2, 1, 1) if tier == "quick" else (4, 3, 3, 2, 2)),
            "route_list": ["+".join(r) for r in ROUTES],
            "early_references": "value references taken once at the start of a block and used after other edits: "
                                "[e1, ref-edit] for every edit e1 and every reference still alive, then every surviving "
                                "reference read; layouts of <= %d pieces" % (3 if tier == "quick" else 4),
            "reformatting": "reformat_when_finished() / value_formatter(custom one-line formatter, force_reformat) followed by "
                            "no edit or any single edit (layouts with >= 1 value, <= %d pieces; two blocks at <= %d pieces): "
                            "values, other fields and validity are judged exactly as without reformatting; "
                            "value_formatter(f) without force and without an edit must leave the document byte-identical"
                            % ((3, 2) if tier == "quick" else (4, 3)),
            "count_ladders": "generated values (signatures ladder/<kind>/...) of the kinds %s (see ladder_value) with n in 1..40, %s: read, "
                             "a session that changes nothing (field in the middle, and - n <= 12 or odd - as unterminated last field of the document), "
                             "and single edits addressing the first, middle and last value (n <= 12: append, remove, replace, "
                             "reference set / remove at each - 13 edits; n <= 129: 6; above: 4), alternately with and without "
                             "reading the open list, all ways of dumping compared" % (
                                 ", ".join(LADDER_KINDS), sorted({d["n"] for d in ladder_descs(tier) if d["n"] > 40})),
            "size_ladders": "three values, the middle one of L characters, L in %s, content %s (whitespace lists) / %s (comma "
                            "lists; special characters just before / at / across every multiple of 4096): the same reads and edits "
                            "(signatures size/<content>/...)" % (sorted({d["n"] for d in size_descs("ws", tier)}),
                                                                 ", ".join(SIZE_CONTENTS["ws"]), ", ".join(SIZE_CONTENTS["comma"])),
            "append_after_layout_calls": "append_separator() / append_separator(space_after_separator=False) / append_newline() / "
                                         "append_comment() / newline+comment, each followed by append(z): layouts of <= %d pieces"
                                         % (3 if tier == "quick" else 4)}


def assumptions():
    return ["value = text after 'F:' up to the end of the field; comment lines dropped; comma list items stripped",
            "empty / whitespace-only field values are outside the domain", "removing the last remaining value may be "
            "rejected with ValueError", "continuation lines must contain non-blank text (deb822 syntax)",
            "routes: in the shapes 'assigned' and 'built' the list field is written through the dict interface first, which "
            "trims the first line of the value (documented); the list is judged on the text the document then has",
            "routes: a list obtained with discard_comments_on_read=False is compared with the oracle only for values without "
            "comment lines (the statement's values ignore comment lines; that option is documented to keep them)",
            "routes: items()/values() of a view resolve a repeated name to its first occurrence, so the second occurrence of a "
            "duplicated list field is reached through (name, 1), (name, -1), get(), its name token or the field element only",
            "routes: one list object re-entered for a second block is used only after blocks that ended normally (a block left "
            "by an exception keeps its unwritten edits in the list object; the statement does not say what a later block on "
            "that same object writes)",
            "reformatting: sort()/sort_elements() are outside the statement (it speaks of appending, removing and replacing); "
            "reformatting a list that has no value would produce an empty field and is not enumerated",
            "early references: only references to values that were not removed are read back; a reference whose value was "
            "removed through the list is documented as invalidated",
            "CR LF: a carriage return before the line feed is white space next to a value, so a field with CR LF line ends "
            "reads the same values and a session without edits leaves it byte-identical; EDITING such a field is not "
            "demanded - the control-file format ends lines with LF only, and the unchanged library refuses the write-back "
            "('Input is inconsistent with its line endings': its writer splits the new text at the bare CR)",
            "ladders: values beyond the small scope vary ONE count or length in an otherwise plain list; edits there are single "
            "edits (depth 1); counts stop at 1001 in the quick tier (5000 thorough), lengths at 65537 (262145 thorough); an item "
            "of a comma list that spans lines reads with its inner line break, as in the small scope",
            "LIST_UPLOADERS_INTERPRETATION is a third interpretation with its own splitting rule and is not covered by the "
            "statement (whitespace- or comma-separated)"]


PIECES = {
    "ws": lambda seed: [core.rep(seed, ["a", "q", "0", "é"]), core.rep(seed, ["bb", "x1", "b-b", "üü"]), "#h",
                        " ", "  ", "\t", "\n ", "\n\t", "\n#h\n "],
    "comma": lambda seed: [core.rep(seed, ["a", "q", "0", "é"]), core.rep(seed, ["b c", "x 1", "b  c", "ü ü"]), "#h",
                           ",", ", ", " ", "\n ", "\n#h\n "],
}


def _content_lines(v):
    """the first line follows the colon and is never a comment; later lines are comments iff '#' is in column 0"""
    lines = v.split("\n")
    return lines[:1] + [l for l in lines[1:] if not l.startswith("#")]


def valid_value(v):
    lines = v.split("\n")
    if not "".join(_content_lines(v)).strip():
        return False
    for l in lines[1:]:
        if l.startswith("#"):
            continue
        if not l or l[0] not in " \t" or not l.strip():
            return False
    if len(lines) > 1 and lines[-1].startswith("#"):
        return False
    return True


def split_oracle(v, interp):
    t = "\n".join(_content_lines(v))
    if interp == "comma":
        return [x.strip() for x in t.split(",") if x.strip()]
    return t.split()


def first_piece(v, pieces):
    best = None
    for p in pieces:
        if v.startswith(p) and (best is None or len(p) > len(best)):
            best = p
    return best


def layouts(interp, first, maxlen, seed):
    """all valid values whose canonical first piece is `first` (units partition the value strings)"""
    pieces = PIECES[interp](seed)
    seen = set()
    for L in range(1, maxlen + 1):
        for seq in itertools.product(pieces, repeat=L - 1):
            v = first + "".join(seq)
            if v in seen:
                continue
            seen.add(v)
            if first_piece(v, pieces) != first or not valid_value(v):
                continue
            yield v, L


def sweep_chars(interp):
    cs = [chr(c) for c in range(0x21, 0x7f)] + list("éüЖ字ß")
    return [c for c in cs if not (interp == "comma" and c == ",")]


MARKER_WORDS = ["-----BEGIN", "-----END-----", "Field:", "A:b", "a::b", "--", "#x#", "x#", "${a:b}", "(>=1)", "[!amd64]",
                "<!nocheck>", "a|b", "\\n", "\\", "..", "%s", "{}", "=x", "a;b", "\u00a0", "\u2028", "\u2029", "\x0b", "\x0c", "\x1c", "\x1d", "\x1e", "\x1f", "\x85", "\u3000"]
MARKER_WORDS_WS = ["a,b", ",", ",x", "x,"]
MARKER_WORDS_COMMA = ["-----BEGIN PGP SIGNATURE-----", "a (>= 1) | b [x y] <!z>", "A: b", "x  #h", "a\tb"]


def marker_words(interp):
    return MARKER_WORDS + (MARKER_WORDS_WS if interp == "ws" else MARKER_WORDS_COMMA)


def units(tier, seed):
    out = []
    for interp in ("ws", "comma"):
        for first in PIECES[interp](seed):
            out.append({"interp": interp, "first": first})
        cs = sweep_chars(interp)
        out += [{"interp": interp, "sweep": cs[i:i + 25]} for i in range(0, len(cs), 25)]
        # words that spell a marker of a neighbouring layer in full (armor, field syntax, comments, substitution
        # variables, relation syntax, escapes, the other interpretation's separator)
        out.append({"interp": interp, "sweep": marker_words(interp)})
    for interp in ("ws", "comma"):
        out += [{"interp": interp, "route": list(r)} for r in ROUTES[1:]]
        out += [{"interp": interp, "extra": first} for first in PIECES[interp](seed)]
    # the same small values in a field whose lines end in CR LF (the carriage return is white space next to a value)
    out += [{"interp": interp, "crlf": True} for interp in ("ws", "comma")]
    out += scale_units(tier)
    return out


def unit_cost(u, tier):
    if "ladder" in u:
        return 8
    return 1 if "sweep" in u or "route" in u else 3 if "extra" in u else 10


def edits_for(vals, interp):
    yield ("append", "z")
    if interp == "comma":
        yield ("append", "y z")
    for i, v in enumerate(vals):
        if v not in vals[:i]:
            yield ("remove", v)
            yield ("replace", v, "z")
    for i in range(len(vals)):
        yield ("refset", i, "z")
        yield ("refremove", i)


PRE_APPEND = ("sep", "sep-nospace", "nl", "comment", "nl+comment")


def model_edit(vals, e, ids=None):
    """-> (new list of values, parallel list of identities: the position at the start of the block for the values that
    were there, None for values added since)"""
    vals = list(vals)
    ids = list(ids) if ids is not None else [None] * len(vals)
    k = e[0]
    if k in ("refread", "eref-read"):
        pass
    elif k == "append" or k.startswith("append-after-"):
        vals.append(e[1])
        ids.append(None)
    elif k == "remove":
        i = vals.index(e[1])
        del vals[i], ids[i]
    elif k == "replace":
        vals[vals.index(e[1])] = e[2]
    elif k == "refset":
        vals[e[1]] = e[2]
    elif k == "refremove":
        del vals[e[1]], ids[e[1]]
    elif k == "eref-set":
        vals[ids.index(e[1])] = e[2]
    elif k == "eref-remove":
        i = ids.index(e[1])
        del vals[i], ids[i]
    else:
        raise KeyError(k)
    return vals, ids


def impl_edit(lst, e, erefs=None, evals=None):
    k = e[0]
    if k == "refread":
        got = [r.value for r in lst.iter_value_references()]
        want = list(lst)
        if got != want:
            raise AssertionError("values read through references %r differ from the list %r" % (got, want))
        return
    if k == "append":
        lst.append(e[1])
    elif k.startswith("append-after-"):
        pre = k[len("append-after-"):]
        if pre == "sep":
            lst.append_separator()
        elif pre == "sep-nospace":
            lst.append_separator(space_after_separator=False)
        if pre in ("nl", "nl+comment"):
            lst.append_newline()
        if pre in ("comment", "nl+comment"):
            lst.append_comment("k")
        lst.append(e[1])
    elif k == "remove":
        lst.remove(e[1])
    elif k == "replace":
        lst.replace(e[1], e[2])
    elif k == "refset":
        list(lst.iter_value_references())[e[1]].value = e[2]
    elif k == "refremove":
        list(lst.iter_value_references())[e[1]].remove()
    elif k == "eref-set":
        erefs[e[1]].value = e[2]
    elif k == "eref-remove":
        erefs[e[1]].remove()
    elif k == "eref-read":
        # evals: {identity: value the model expects} for the references whose values are still in the list
        got = {i: erefs[i].value for i in sorted(evals)}
        if got != evals:
            raise AssertionError("values read through references taken at the start of the block: %r, expected %r" % (got, evals))
    else:
        raise KeyError(k)


def _interp(name):
    from debian._deb822_repro import LIST_SPACE_SEPARATED_INTERPRETATION, LIST_COMMA_SEPARATED_INTERPRETATION
    return LIST_SPACE_SEPARATED_INTERPRETATION if name == "ws" else LIST_COMMA_SEPARATED_INTERPRETATION


def _lines(text, nl="\n"):
    """the lines of a document: only a line feed ends one (str.splitlines also cuts at FF, VT, U+2028, ...)"""
    parts = text.split(nl)
    return [x + nl for x in parts[:-1]] + ([parts[-1]] if parts[-1] else [])


def _parse(text, dup=False):
    from debian._deb822_repro import parse_deb822_file
    return parse_deb822_file(_lines(text), accept_files_with_error_tokens=True,
                             accept_files_with_duplicated_fields=dup)


# document shapes: text before the list field, text after its value, keys of its paragraph, index of that paragraph,
# number of paragraphs, key of the list field, text of the document before / after that paragraph
SHAPES = {
    "mid": ("X: 1\n", "\nY: 2\n", ["X", "F", "Y"], 0, 1, "F", "", ""),
    "last-open": ("X: 1\n", "", ["X", "F"], 0, 1, "F", "", ""),
    "mid-par": ("P: 0\n\nX: 1\n", "\nY: 2\n\n#c\nQ: 9\n", ["X", "F", "Y"], 1, 3, "F", "P: 0\n\n", "\n#c\nQ: 9\n"),
    "dup-other": ("X: 1\n", "\nY: 2\nX: 3\n", ["X", "F", "Y", "X"], 0, 1, "F", "", ""),
    "dup-F": ("F: k\nX: 1\n", "\nY: 2\n", ["F", "X", "F", "Y"], 0, 1, ("F", 1), "", ""),
}
for _n in ("bytes", "assigned", "built"):
    SHAPES[_n] = SHAPES["mid"]

# (shape, way of obtaining the list object, block style); the first is the route of the main walk
ROUTES = [("mid", "item", "with")] + \
    [(sh, "item", "with") for sh in ("mid-par", "dup-other", "dup-F", "bytes", "assigned", "built")] + \
    [("mid", a, "with") for a in ("get", "items", "values", "tuple-key", "other-case", "name-token", "no-auto",
                                  "interpret-as", "interpret", "keep-comments")] + \
    [("mid", "item", b) for b in ("enter-exit", "exitstack", "same-list")] + \
    [("dup-F", "no-auto", "with"), ("dup-F", "tuple-last", "enter-exit"), ("dup-F", "name-token", "same-list"),
     ("dup-F", "interpret-as", "exitstack"), ("dup-other", "values", "same-list"), ("mid-par", "interpret", "enter-exit"),
     ("built", "get", "exitstack"), ("assigned", "keep-comments", "same-list")]


def _wellformed(f, place="mid"):
    if f.find_first_error_element() is not None:
        return False
    sh = SHAPES[place]
    ps = list(f)
    return len(ps) == sh[4] and [str(k) for k in ps[sh[3]].keys()] == sh[2]


class _Abort(Exception):
    pass


class _Found(Exception):
    """carries a violation out of a block body (never seen by the library as anything but 'an exception')"""


def _one_line_formatter(name, sep_token, formatter_tokens):
    """a custom formatter: every value on the first line, comments dropped (formatters may do that)"""
    first = True
    for t in formatter_tokens:
        if not t.is_value:
            continue
        if not first and not sep_token.is_whitespace:
            yield sep_token
        yield " "
        yield t
        first = False
    yield "\n"


def _mkview(p, I, access):
    if access == "no-auto":
        return p.as_interpreted_dict_view(I, auto_resolve_ambiguous_fields=False)
    return p.as_interpreted_dict_view(I)


def _get_list(p, view, I, access, shape):
    """the list object of the list field, obtained the way `access` says"""
    key = SHAPES[shape][5]
    name, idx = key if isinstance(key, tuple) else (key, 0)
    if access in ("item", "no-auto"):
        return view[key]
    if access == "get":
        return view.get(key)
    if access == "items":
        return [x for _k, x in view.items()][SHAPES[shape][2].index(name)]
    if access == "values":
        return list(view.values())[SHAPES[shape][2].index(name)]
    if access == "tuple-key":
        return view[(name, idx)]
    if access == "tuple-last":
        return view[(name, -1)]
    if access == "other-case":
        return view[(name.lower(), idx) if isinstance(key, tuple) else name.lower()]
    if access == "name-token":
        return view[p.get_kvpair_element(key).field_token]
    if access == "interpret-as":
        return p.get_kvpair_element(key).interpret_as(I)
    if access == "interpret":
        return I.interpret(p.get_kvpair_element(key))
    if access == "keep-comments":
        return p.get_kvpair_element(key).interpret_as(I, discard_comments_on_read=False)
    raise KeyError(access)


def _run_block(obj, block, body):
    if block in ("with", "same-list"):
        with obj as lst:
            body(lst)
    elif block == "enter-exit":
        lst = obj.__enter__()
        try:
            body(lst)
        except BaseException:
            if not obj.__exit__(*sys.exc_info()):
                raise
        else:
            obj.__exit__(None, None, None)
    elif block == "exitstack":
        with contextlib.ExitStack() as st:
            body(st.enter_context(obj))
    else:
        raise KeyError(block)


def _open(case):
    """-> (file, paragraph, document text, value text) for the case's document shape"""
    from debian._deb822_repro import parse_deb822_file
    from debian._deb822_repro.parsing import Deb822FileElement, Deb822ParagraphElement
    shape = case.get("shape", case.get("place", "mid"))
    v = case["value"]
    sh = SHAPES[shape]
    doc = sh[0] + "F:" + v + sh[1]
    if shape == "bytes":
        f = parse_deb822_file(_lines(doc.encode("utf-8"), b"\n"), accept_files_with_error_tokens=True)
    elif shape == "assigned":
        f = _parse("X: 1\nF: q\nY: 2\n")
        next(iter(f))["F"] = v
    elif shape == "built":
        f = Deb822FileElement.new_empty_file()
        f.append(Deb822ParagraphElement.from_dict({"X": "1", "F": v, "Y": "2"}))
    else:
        f = _parse(doc, dup=shape.startswith("dup"))
    if shape in ("assigned", "built"):
        doc = f.dump()
        if not doc.startswith(sh[0] + "F:") or not doc.endswith(sh[1]):
            raise _Found(("list/route-%s/setup" % shape, sh[0] + "F:..." + sh[1], doc))
        v = doc[len(sh[0]) + 2:len(doc) - len(sh[1])]
    return f, shape, doc, v


def _dump_routes(f, p, shape, out):
    """every other way of writing the document (or the paragraph, or the field) out, against dump()"""
    sh = SHAPES[shape]
    key = sh[5]
    res = []
    res.append(("convert_to_text", f.convert_to_text(), out))
    b = io.BytesIO()
    f.dump(b)
    res.append(("dump-fd", b.getvalue(), out.encode("utf-8")))
    res.append(("iter-parts", "".join(x.convert_to_text() for x in f.iter_parts()), out))
    ptxt = out[len(sh[6]):len(out) - len(sh[7])]
    res.append(("paragraph-dump", p.dump(), ptxt))
    b = io.BytesIO()
    p.dump(b)
    res.append(("paragraph-dump-fd", b.getvalue(), ptxt.encode("utf-8")))
    if sh[1]:
        res.append(("field-text", p.get_kvpair_element(key).convert_to_text(), out[len(sh[0]):len(out) - len(sh[1]) + 1]))
    return [(n, want, got) for n, got, want in res if got != want]


def run_case(case):
    """-> (violations, final model list or None)"""
    try:
        return _run_case(case)
    except _Found as fd:
        return [fd.args[0]], None


def _run_case(case):
    interp, sessions = case["interp"], case["sessions"]
    I = _interp(interp)
    access, block = case.get("access", "item"), case.get("block", "with")
    reformat = case.get("reformat")
    tag = case.get("tag", "")
    try:
        f, place, doc, v = _open(case)
        ok = _wellformed(f, place)
    except _Found:
        raise
    except Exception as e:
        return [(tag + "list/valid-doc-raises/" + interp, "parses", "%s: %s" % (type(e).__name__, e))], None
    if not ok:
        return [(tag + "list/valid-doc-rejected/" + interp, "one paragraph X F Y, no error element", f.dump())], None
    sh = SHAPES[place]
    key = sh[5]
    p = list(f)[sh[3]]
    vals = split_oracle(v, interp)
    if place in ("assigned", "built"):
        # (the dict interface trims the first line of an assigned value: 'a \n a' is stored as ' a\n a')
        first, nl, rest = case["value"].partition("\n")
        want = split_oracle(first.strip() + nl + rest, interp)
        if vals != want:
            return [(tag + "list/route-%s/setup" % place, want, "%r in %r" % (vals, doc))], None
    if not sessions:
        try:
            obj = _get_list(p, _mkview(p, I, access), I, access, place)
            got = []
            _run_block(obj, block, lambda lst: got.extend(lst))
            truth = bool(obj)
        except Exception as e:
            return [(tag + "list/read-raises/" + interp, vals, "%s: %r" % (type(e).__name__, e))], None
        if got != vals:
            return [(tag + "list/read/" + interp, vals, got)], None
        if truth != bool(vals):
            return [(tag + "list/read-bool/" + interp, bool(vals), truth)], None
        if f.dump() != doc:
            return [(tag + "list/noop-changed/" + interp, doc, f.dump())], None
        return [], vals
    last = None
    views = case.get("views", "fresh")
    vobjs = [_mkview(p, I, access), _mkview(p, I, access)]
    prev_dump = doc
    the_list = None
    for si, sess in enumerate(sessions):
        view = _mkview(p, I, access) if views == "fresh" else vobjs[0] if views == "same" else vobjs[si % 2]
        abort = bool(sess) and tuple(sess[-1]) == ("abort",)
        edits = sess[:-1] if abort else sess
        before = vals
        last = ("noop",)
        state = {"vals": vals, "last": last}
        do_reformat = reformat if (reformat and vals) else None

        def body(lst, edits=edits, state=state, do_reformat=do_reformat):
            erefs = None
            ids = list(range(len(state["vals"])))
            if any(e[0].startswith("eref") for e in edits):
                erefs = list(lst.iter_value_references())
            if do_reformat == "default":
                lst.reformat_when_finished()
            elif do_reformat == "custom":
                lst.value_formatter(_one_line_formatter, force_reformat=True)
            elif do_reformat == "custom-noforce":
                lst.value_formatter(_one_line_formatter)
            for e in edits:
                state["last"] = e
                state["vals"], ids = model_edit(state["vals"], e, ids)
                evals = None
                if e[0] == "eref-read":
                    evals = {i: x for i, x in zip(ids, state["vals"]) if i is not None}
                impl_edit(lst, e, erefs, evals)
                if case.get("observe"):
                    got = list(lst)
                    if got != state["vals"]:
                        raise _Found((tag + "list/%s/wrong-open-list/%s" % (e[0], interp), state["vals"], got))
            if abort:
                raise _Abort()

        try:
            try:
                if block == "same-list":
                    if the_list is None:
                        the_list = _get_list(p, view, I, access, place)
                    obj = the_list
                else:
                    obj = _get_list(p, view, I, access, place)
                _run_block(obj, block, body)
            finally:
                vals, last = state["vals"], state["last"]
        except _Abort:
            vals = before          # a with-block left by an exception writes nothing
            last = ("abort",)
        except _Found:
            raise
        except ValueError as ex:
            if not vals:
                return [], None           # removing the only value may be refused
            return [(tag + "list/%s/raises/%s" % (last[0], interp), vals, "ValueError: %s" % ex)], None
        except Exception as ex:
            return [(tag + "list/%s/raises/%s" % (last[0], interp), vals, "%s: %r" % (type(ex).__name__, ex))], None
        out = f.dump()
        sig = tag + "list/%s/%%s/%s" % (last[0], interp)
        unchanged = abort or all(e[0] in ("refread", "eref-read") for e in edits)
        if unchanged and do_reformat in (None, "custom-noforce") and out != prev_dump:
            return [(sig % "document-changed", prev_dump, out)], None
        if case.get("dumps"):
            for name, want, got in _dump_routes(f, p, place, out):
                return [(sig % ("via-" + name), want, got)], None
        if place == "last-open":
            continue          # (only no-change sessions are run on the unterminated last field)
        prev_dump = out
        try:
            f2 = _parse(out, dup=place.startswith("dup"))
            ok = _wellformed(f2, place)
        except Exception as ex:
            return [(sig % "invalid-doc", "parses", "%s: %r on %r" % (type(ex).__name__, ex, out))], None
        if not ok:
            return [(sig % "invalid-doc", "one paragraph X F Y, no error element", out)], None
        if not vals and not unchanged:
            return [(sig % "empty-list-accepted", "ValueError or a non-empty list", out)], None
        if not out.startswith(sh[0] + "F:") or not out.endswith(sh[1]) or out.count(sh[1]) != 1:
            return [(sig % "nonlocal", sh[0] + "F:..." + sh[1], out)], None
        p2 = list(f2)[sh[3]]
        if p2["X"] != "1" or p2["Y"] != "2":
            return [(sig % "nonlocal", "X=1 Y=2", (p2["X"], p2["Y"]))], None
        try:
            got = list(p2.as_interpreted_dict_view(I)[key])
            live = list(_get_list(p, _mkview(p, I, access), I, access, place))
            same = list(_get_list(p, view, I, access, place)) if views != "fresh" else live
            # (a block left by an exception keeps its unwritten edits in the list object: not read then)
            closed = list(obj) if case.get("closed") and not abort else vals
        except Exception as ex:
            return [(sig % "reread-raises", vals, "%s: %r on %r" % (type(ex).__name__, ex, out))], None
        if got != vals:
            return [(sig % "wrong-list", vals, "%r from %r" % (got, out))], None
        if live != vals:
            return [(sig % "wrong-live-list", vals, live)], None
        if same != vals:
            return [(sig % "wrong-list-through-the-same-view", vals, same)], None
        if closed != vals:
            return [(sig % "wrong-closed-list", vals, closed)], None
    return [], vals


def crlf_values(interp, tier, seed):
    out = []
    for first in PIECES[interp](seed):
        for v, L in layouts(interp, first, 3 if tier == "quick" else 4, seed):
            w = v.replace("\n", "\r\n") + "\r"
            if valid_value(w) and split_oracle(w, interp) == split_oracle(v, interp):
                out.append((w, L))
    return out


def run_crlf(part, interp, tier, seed):
    """read and no-change sessions on values whose lines end in CR LF"""
    for v, L in crlf_values(interp, tier, seed):
        base = {"interp": interp, "value": v, "tag": "crlf/"}
        part.states += 1
        part.transitions += 1
        cases = [dict(base, sessions=[])]
        cases += [dict(base, sessions=ss, place="mid", views="same") for ss in ([[("refread",)]], [[]])]
        vals = split_oracle(v, interp)
        for c in cases:
            bad, _x = run_case(c)
            part.traces += 1
            part.evaluations += 1
            for sig, exp, obs in bad:
                part.violation(sig, c, exp, obs, rank=L)
            part.outcomes["crlf/%s/%s" % (interp, "VIOLATION" if bad else "read" if not c["sessions"] else "session")] += 1
        if len(vals) >= 2:
            part.nontrivial += 1
    part.max_depth = 3
    part.sample(c)
    return part


def run_sweep(part, interp, chars):
    """one unusual character at a time inside the words of a list (read, no-op, and every depth-1 edit)"""
    sep = " " if interp == "ws" else ", "
    for c in chars:
        blank = c.strip() != c or not c.strip()        # a character str.split / str.strip count as white space
        words = ["x" + c + "y", "m" + c + "m", "x" + c + c + "y"] if blank else ["x" + c + "y", c, c + c]
        layouts = [" " + sep.join(words), words[0] + sep + "m\n " + words[1], " m" + sep + "\n#k\n " + words[2] + sep.rstrip()]
        for v in layouts:
            if not valid_value(v):
                continue
            base = {"interp": interp, "value": v}
            bad, vals = run_case(dict(base, sessions=[]))
            part.states += 1
            part.transitions += 1
            part.traces += 1
            part.evaluations += 1
            for sig, exp, obs in bad:
                part.violation(sig, dict(base, sessions=[]), exp, obs, rank=1)
            if bad:
                continue
            part.nontrivial += 1
            # (inside a whitespace-separated list such a character separates words: no new word can contain it)
            more = [] if blank and interp == "ws" else \
                [("append", "z" + c + "z"), ("replace", vals[0], "k" + c + "z")] if blank else \
                [("append", "z" + c), ("replace", vals[0], c + "z")]
            for e in list(edits_for(vals, interp)) + more:
                for observe in (False, True):
                    case = dict(base, sessions=[[e]], observe=observe)
                    bad, _v = run_case(case)
                    part.transitions += 1
                    part.traces += 1
                    part.evaluations += 1
                    for sig, exp, obs in bad:
                        part.violation(sig, case, exp, obs, rank=2)
            part.outcomes["sweep/" + interp] += 1
    part.sample({"interp": interp, "value": " x" + chars[0] + "y", "sessions": []})
    return part


def _count(part, case, rank, transition=True):
    bad, vals = run_case(case)
    part.evaluations += 1
    part.traces += 1
    if transition:
        part.transitions += 1
    for sig, exp, obs in bad:
        part.violation(sig, case, exp, obs, rank=rank)
    return bad, vals


def route_tag(route):
    d = ROUTES[0]
    return "via-" + "+".join(x for x, y in zip(route, d) if x != y) + "/"


def run_route(part, interp, route, tier, seed):
    """one non-default route to the list (document shape, way of obtaining the list object, block style) judged by the
    same oracle as the default route"""
    shape, access, block = route
    Lread, Ledit, Ltwo = (3, 2, 1) if tier == "quick" else (4, 3, 2)
    tag = route_tag(route)
    for first in PIECES[interp](seed):
        for v, L in layouts(interp, first, Lread, seed):
            if access == "keep-comments" and "\n#" in v:
                continue
            base = {"interp": interp, "value": v, "shape": shape, "access": access, "block": block, "tag": tag,
                    "dumps": True, "closed": True}
            part.states += 1
            bad, vals = _count(part, dict(base, sessions=[]), L)
            if bad:
                continue
            part.outcomes["route-read/" + tag[4:-1]] += 1
            if L == 2:
                part.sample(dict(base, sessions=[]))
            if L > Ledit:
                continue
            for sessions in ([[("refread",)], []], [[]]):
                _count(part, dict(base, sessions=sessions, views="same"), L)
            for e1 in edits_for(vals, interp):
                bad, v1 = _count(part, dict(base, sessions=[[e1]], observe=True), 10 * L + 1)
                part.states += 1
                if bad or v1 is None:
                    continue
                part.outcomes["route-edit/" + tag[4:-1]] += 1
                part.nontrivial += 1
                if block != "same-list":
                    if L <= Ltwo:
                        # a block left by an exception, then the same edit again through the same view object
                        _count(part, dict(base, sessions=[[e1, ("abort",)], [e1]], views="same"), 10 * L + 2)
                    continue
                # one list object entered again for a second block (the route is the pure one: every second edit; or a
                # combination with another shape / access: second edits on the shortest layouts only)
                if L > Ltwo and (shape, access) != ("mid", "item"):
                    continue
                for e2 in [None] + list(edits_for(v1, interp)):
                    _count(part, dict(base, sessions=[[e1], [e2] if e2 else []]), 10 * L + 2)
                    part.states += 1
                _count(part, dict(base, sessions=[[], [e1]]), 10 * L + 2)
    part.max_depth = max(part.max_depth, 2)
    return part


def run_extra(part, interp, first, tier, seed):
    """references taken at the start of a block, reformatting on write-back, layout calls ahead of an append"""
    L1, L2, L3 = (3, 2, 1) if tier == "quick" else (4, 3, 2)
    for v, L in layouts(interp, first, L1, seed):
        base = {"interp": interp, "value": v, "dumps": True, "closed": True}
        vals = split_oracle(v, interp)
        part.states += 1
        e1s = list(edits_for(vals, interp))
        # --- early references: [e1, an edit through a reference taken before e1, read every surviving reference]
        ids = list(range(len(vals)))
        for e1 in e1s + [("eref-set", i, "y") for i in ids] + [("eref-remove", i) for i in ids]:
            v1, ids1 = model_edit(vals, e1, ids)
            alive = [i for i in ids1 if i is not None]
            e2s = [None]
            if L <= L2:
                e2s += [("eref-set", i, "w") for i in alive] + [("eref-remove", i) for i in alive]
            for e2 in e2s:
                edits = [e1] + ([e2] if e2 else []) + [("eref-read",)]
                bad, _x = _count(part, dict(base, sessions=[edits], tag="early-refs/"), 10 * L + len(edits))
                part.states += 1
                part.outcomes["early-refs/" + ("violation" if bad else "refused" if _x is None else e2[0] if e2 else "read")] += 1
        # --- layout calls ahead of an append
        for pre in PRE_APPEND:
            e = ("append-after-" + pre, "z")
            bad, _x = _count(part, dict(base, sessions=[[e]], observe=True), 10 * L + 1)
            part.outcomes["append-after/" + ("violation" if bad else pre)] += 1
            if L <= L3 and not bad:
                if "nl" not in pre:
                    # (append_newline() is refused right after the newline a write-back leaves at the end of the list)
                    _count(part, dict(base, sessions=[[e], [e]], block="same-list"), 10 * L + 2)
                for e2 in edits_for(vals + ["z"], interp):
                    _count(part, dict(base, sessions=[[e], [e2]]), 10 * L + 2)
        # --- reformatting
        _count(part, dict(base, sessions=[[]], reformat="custom-noforce", tag="formatter-set-no-change/"), L)
        if not vals:
            continue
        for rf in ("default", "custom"):
            tag = "reformat-%s/" % rf
            if rf == "custom" and L > L2:
                continue
            for e1 in [None] + e1s:
                bad, v1 = _count(part, dict(base, sessions=[[e1] if e1 else []], reformat=rf, tag=tag, observe=True), 10 * L + 1)
                part.states += 1
                part.outcomes[tag + ("violation" if bad else "refused" if v1 is None else e1[0] if e1 else "no-edit")] += 1
                if bad or v1 is None or L > L3:
                    continue
                part.nontrivial += 1
                for e2 in [None] + list(edits_for(v1, interp)):
                    _count(part, dict(base, sessions=[[e1] if e1 else [], [e2] if e2 else []], reformat=rf, tag=tag), 10 * L + 2)
    part.max_depth = max(part.max_depth, 3)
    return part


def run_unit(u, tier, seed):
    part = core.Part()
    interp = u["interp"]
    if "ladder" in u:
        return run_ladder(part, interp, u["ladder"])
    if "sweep" in u:
        return run_sweep(part, interp, u["sweep"])
    if "route" in u:
        return run_route(part, interp, tuple(u["route"]), tier, seed)
    if "extra" in u:
        return run_extra(part, interp, u["extra"], tier, seed)
    if "crlf" in u:
        return run_crlf(part, interp, tier, seed)
    Lread, L1, L2, L3 = (4, 4, 3, 0) if tier == "quick" else (5, 5, 4, 2)
    Lv = 2 if tier == "quick" else 3
    for v, L in layouts(interp, u["first"], max(Lread, L1), seed):
        base = {"interp": interp, "value": v}
        part.states += 1
        part.transitions += 1
        if L <= Lread:
            bad, vals = run_case(dict(base, sessions=[]))
            part.evaluations += 1
            part.traces += 1
            for sig, exp, obs in bad:
                part.violation(sig, dict(base, sessions=[]), exp, obs, rank=L)
            if bad:
                continue
            part.outcomes["read/%s/%d-values" % (interp, min(len(vals), 4))] += 1
            if len(vals) >= 2 or "\n" in v:
                part.nontrivial += 1
            if L == 3:
                part.sample(dict(base, sessions=[]))
            # sessions that change nothing (values read through references, an empty `with`), also on a field that is
            # the unterminated last line of the document: the dump must stay byte-identical
            for place in ("mid", "last-open"):
                if place == "last-open" and v.endswith(("\n", " ", "\t")):
                    continue
                for sessions in ([[("refread",)]], [[]], [[("refread",)], []]):
                    c = dict(base, sessions=sessions, place=place, views="same")
                    badn, _x = run_case(c)
                    part.evaluations += 1
                    part.traces += 1
                    for sig, exp, obs in badn:
                        part.violation(sig, c, exp, obs, rank=L)
        else:
            vals = split_oracle(v, interp)
        if L > L1:
            continue
        e1s = list(edits_for(vals, interp))
        for e1 in e1s:
            c = dict(base, sessions=[[e1]], observe=True)
            bad, v1 = run_case(c)
            part.evaluations += 1
            part.traces += 1
            for sig, exp, obs in bad:
                part.violation(sig, c, exp, obs, rank=10 * L + 1)
            c = dict(base, sessions=[[e1]])
            bad, v1 = run_case(c)
            part.evaluations += 1
            part.transitions += 1
            part.traces += 1
            part.states += 1
            for sig, exp, obs in bad:
                part.violation(sig, c, exp, obs, rank=10 * L + 1)
            if bad or v1 is None:
                part.outcomes["edit-refused" if not bad else "edit-violation"] += 1
                continue
            part.outcomes["edit/" + e1[0]] += 1
            if L <= Lv:
                # an aborted session followed by a no-change session through the same view object
                c = dict(base, sessions=[[e1, ("abort",)], []], views="same")
                bad, _x = run_case(c)
                part.evaluations += 1
                part.transitions += 1
                part.traces += 1
                for sig, exp, obs in bad:
                    part.violation(sig, c, exp, obs, rank=10 * L + 2)
                # ... or by an edit session (the aborted edits are gone: e2 ranges over edits of the original list)
                for e2 in edits_for(vals, interp):
                    for views in ("same", "fresh"):
                        c = dict(base, sessions=[[e1, ("abort",)], [e2]], views=views)
                        bad, _x = run_case(c)
                        part.evaluations += 1
                        part.transitions += 1
                        part.traces += 1
                        for sig, exp, obs in bad:
                            part.violation(sig, c, exp, obs, rank=10 * L + 2)
            if L > L2:
                continue
            for e2 in edits_for(v1, interp):
                variants = [([[e1, e2]], False, "fresh"), ([[e1, e2]], True, "fresh"), ([[e1], [e2]], False, "fresh")]
                if L <= Lv:
                    variants += [([[e1], [e2]], False, "same"), ([[e1], [e2]], False, "two")]
                for sessions, observe, views in variants:
                    c = dict(base, sessions=sessions, observe=observe, views=views)
                    bad, v2 = run_case(c)
                    part.evaluations += 1
                    part.transitions += 1
                    part.traces += 1
                    part.states += 1
                    for sig, exp, obs in bad:
                        part.violation(sig, c, exp, obs, rank=10 * L + 2)
                    if bad or v2 is None or L > L3 or len(sessions) == 1 or observe or views != "fresh":
                        continue
                    for e3 in edits_for(v2, interp):
                        for s3 in ([[e1], [e2, e3]], [[e1], [e2], [e3]]):
                            c = dict(base, sessions=s3)
                            bad, _v3 = run_case(c)
                            part.evaluations += 1
                            part.transitions += 1
                            part.traces += 1
                            part.states += 1
                            for sig, exp, obs in bad:
                                part.violation(sig, c, exp, obs, rank=10 * L + 3)
        part.max_depth = max(part.max_depth, 1 if L > L2 else (2 if L > L3 else 3))
    return part


def replay(case):
    case = dict(case, sessions=[[tuple(e) for e in s] for s in case["sessions"]])
    if "vdesc" in case:
        case = expand_case(case)
    return run_case(case)[0]


def repro_py(case):
    if "vdesc" in case:
        return ("# generated value: mc/props/c11.py ladder_value(%r, %r); edits named by position\nimport sys\n"
                "sys.path.insert(0, '/verif')\nfrom mc.props import c11\nprint(c11.replay(%r))\n"
                % (case["interp"], case["vdesc"], case))
    shape = case.get("shape", case.get("place", "mid"))
    sh = SHAPES[shape]
    return ("from debian._deb822_repro import parse_deb822_file, LIST_SPACE_SEPARATED_INTERPRETATION as WS, "
            "LIST_COMMA_SEPARATED_INTERPRETATION as CS\n"
            "# route: document shape %r, list obtained by %r, block style %r, reformat %r (see mc/props/c11.py ROUTES)\n"
            "doc = %r\nf = parse_deb822_file([l + '\\n' for l in doc.split('\\n')[:-1]] + [l for l in doc.split('\\n')[-1:] if l], accept_files_with_duplicated_fields=True); p = list(f)[%d]\n"
            "with p.as_interpreted_dict_view(%s)[%r] as lst:\n    print(list(lst))  # sessions: %r\nprint(repr(f.dump()))\n"
            % (shape, case.get("access", "item"), case.get("block", "with"), case.get("reformat"),
               sh[0] + "F:" + case["value"] + sh[1], sh[3], "WS" if case["interp"] == "ws" else "CS", sh[5], case["sessions"]))


# ---------------------------------------------------------------- beyond the small scope: count and size ladders

LADDER_KINDS = ("one-line", "one-per-line", "spread", "spread-tabs", "few-separators", "comments", "comments-alternating",
                "separators", "trailing-separators", "leading-blanks", "repeated-value", "first-line-empty")
SIZE_CONTENTS = {"ws": ("plain", "multibyte", "hash", "colon-free"), "comma": ("plain", "multibyte", "hash", "words", "tab")}


def ladder_value(interp, d):
    """compact description -> the text of the list field (everything after `F:`).  n values v1..vn:
      one-line               all on the first line
      one-per-line           one value per line (comma lists: the separator ends every line but the last)
      spread                 over n lines with few separators: comma lists - an item is two words on two lines, a comma only
                             after every second line; whitespace lists - one or two words per line (spread-tabs: tab
                             continuation lines, blanks at the line ends)
      few-separators         n lines of two words; comma lists: a single comma after the middle line, comment lines among
                             the lines of the second half
      comments               two values with n comment lines between their lines
      comments-alternating   n value lines, a comment line after each but the last
      separators             two values with n separators (blanks / commas) between them
      trailing-separators    one value followed by n separators; leading-blanks: n blanks, then the values
      repeated-value         the same value n times and another one in the middle
      first-line-empty       nothing after the colon, then n value lines
      size                   three values, the middle one of n characters (content: see _doc.sized_text; for whitespace
                             lists without blanks inside)"""
    kind, n = d["kind"], d["n"]
    sep = " " if interp == "ws" else ", "
    vs = ["v%d" % i for i in range(1, n + 1)]
    if kind == "one-line":
        return " " + sep.join(vs)
    if kind == "one-per-line":
        return " " + (sep.rstrip() + "\n ").join(vs)
    if kind in ("spread", "spread-tabs"):
        ind = " " if kind == "spread" else "\t"
        end = "" if kind == "spread" else " "
        lines = []
        for i in range(1, n + 1):
            if interp == "comma":
                lines.append("w%d x%d" % (i, i) if i % 3 else "w%d" % i)
                if i % 2 == 0 and i != n:
                    lines[-1] += ","
            else:
                lines.append("w%d x%d" % (i, i) if i % 3 == 0 else "w%d" % i)
        return " " + (end + "\n" + ind).join(lines)
    if kind == "few-separators":
        # n lines of two words each; comma lists: one comma, after the middle line (two items that span many lines),
        # the second half interleaved with comment lines
        lines = ["w%d x%d" % (i, i) for i in range(1, n + 1)]
        if interp == "comma" and n > 1:
            lines[(n - 1) // 2] += ","
        return " " + "".join(l + ("\n#c\n " if 2 * i > n and i % 2 == 0 else "\n ") for i, l in enumerate(lines[:-1], 1)) + lines[-1]
    if kind == "comments":
        return " a" + sep.rstrip() + "\n" + "".join("#c %d\n" % i for i in range(1, n + 1)) + " b"
    if kind == "comments-alternating":
        return " " + (sep.rstrip() + "\n#c\n ").join(vs)
    if kind == "separators":
        return " a" + (" " * n if interp == "ws" else "," * n) + "b"
    if kind == "trailing-separators":
        return " a" + (" " * n if interp == "ws" else ", " * n)
    if kind == "leading-blanks":
        return " " * n + "a" + sep + "b"
    if kind == "repeated-value":
        xs = ["r"] * n
        xs.insert((n + 1) // 2, "m")
        return " " + sep.join(xs)
    if kind == "first-line-empty":
        return "\n " + (sep.rstrip() + "\n ").join(vs)
    if kind == "size":
        c = d["content"]
        if c == "colon-free":
            t = _doc.sized_text(n, "plain").replace("j", ":")
        elif c == "tab":
            t = _doc.sized_text(n, "tab")
        else:
            t = _doc.sized_text(n, c)
        if interp == "ws":
            t = t.replace(" ", "_")
            assert len(t.split()) == 1
        return " a" + sep + t + sep.rstrip() + "\n b"
    raise AssertionError(d)


def ladder_edits(vals, interp):
    """edits named by POSITION in the list as read (expanded against the oracle's list): the first, middle and last
    value removed / replaced / set or removed through its reference, and an append"""
    n = len(vals)
    out = [("append", "z")]
    for i in sorted({0, n // 2, n - 1}):
        out += [("@remove", i), ("@replace", i, "z"), ("refset", i, "z"), ("refremove", i)]
    return out


def expand_case(case):
    v = ladder_value(case["interp"], case["vdesc"])
    vals = split_oracle(v, case["interp"])
    sessions = []
    for sess in case["sessions"]:
        out = []
        for e in sess:
            e = tuple(e)
            if e[0] == "@remove":
                e = ("remove", vals[e[1]])
            elif e[0] == "@replace":
                e = ("replace", vals[e[1]], e[2])
            out.append(e)
        sessions.append(out)
    c = dict(case, value=v, sessions=sessions)
    return c


def ladder_descs(tier):
    NS = _doc.LADDER_NS
    ns = NS["small"] + NS["mid"] + ([1000, 1001] if tier == "quick" else NS["big"] + NS["huge"])
    out = []
    for n in ns:
        for kind in LADDER_KINDS:
            out.append({"kind": kind, "n": n})
    return out


def size_descs(interp, tier):
    return [{"kind": "size", "n": L, "content": c} for L in _doc.SIZE_LS if tier != "quick" or L <= 65537
            for c in SIZE_CONTENTS[interp]]


def scale_units(tier):
    out = []
    for interp in ("ws", "comma"):
        ds = ladder_descs(tier)
        small = [d for d in ds if d["n"] <= 40]
        big = [d for d in ds if d["n"] > 40]
        for k in range(4):
            out.append({"interp": interp, "ladder": small[k::4]})
        for k in range(8):
            out.append({"interp": interp, "ladder": big[k::8]})
        sz = size_descs(interp, tier)
        for k in range(4):
            out.append({"interp": interp, "ladder": sz[k::4]})
    return out


def run_ladder(part, interp, descs):
    for d in descs:
        v = ladder_value(interp, d)
        if not valid_value(v):
            part.outcomes["ladder/not-a-field-value"] += 1
            continue
        fam = ("size/%s/" % d["content"]) if d["kind"] == "size" else "ladder/%s/" % d["kind"]
        vals = split_oracle(v, interp)
        part.states += 1
        part.transitions += 1
        if len(vals) >= 2:
            part.nontrivial += 1
        shapes = ("mid", "last-open") if d["n"] <= 12 or d["n"] % 2 else ("mid",)
        for shape in shapes:
            base = {"interp": interp, "vdesc": d, "tag": fam, "shape": shape}
            cases = [dict(base, sessions=[]), dict(base, sessions=[[("refread",)], []], views="same")]
            if shape == "mid":
                edits = ladder_edits(vals, interp)
                n = len(vals)
                if d["n"] > 129:
                    edits = [("append", "z"), ("@remove", n // 2), ("refremove", 0), ("refset", n - 1, "z")]
                elif d["n"] > 12:
                    edits = [("append", "z"), ("@remove", n // 2), ("@replace", 0, "z"), ("refremove", 0), ("refset", n - 1, "z"),
                             ("refremove", n - 1)]
                edits = [e for k, e in enumerate(edits) if e not in edits[:k]]
                cases += [dict(base, sessions=[[e]], observe=(k % 2 == 0), dumps=True, closed=True)
                          for k, e in enumerate(edits)]
            for c in cases:
                bad, _v = run_case(expand_case(c))
                part.traces += 1
                part.evaluations += 1
                if c["sessions"]:
                    part.transitions += 1
                for sig, exp, obs in bad:
                    part.violation(sig, c, _short(exp), _short(obs), rank=d["n"])
                part.outcomes["%s%s/%s" % (fam, interp, "VIOLATION" if bad else "read" if not c["sessions"] else
                                           "no-change" if not any(e[0] != "refread" for s_ in c["sessions"] for e in s_) else "edit")] += 1
        part.max_depth = max(part.max_depth, 1)
    if descs:
        part.sample(dict(base, sessions=[]))
    return part


def _short(x):
    r = x if isinstance(x, str) else repr(x)
    return x if len(r) < 600 else r[:280] + " ...(%d characters)... " % len(r) + r[-280:]
