"""C13 - package relationship fields: PkgRelation.str and PkgRelation.parse_relations are inverse.

Engine B over a grammar product.  A relation structure (conjunction of alternatives of atoms) is built
directly from components in the very shape parse_relations returns - a list of lists of dicts with the keys
name, archqual, version ((relop, version) or None), arch (list of ArchRestriction or None), restrictions
(list of lists of BuildRestriction or None) - then formatted with PkgRelation.str, parsed back, compared:

  * parse_relations(str(r)) == r   (located: shape, then the first differing key of the first differing atom)
  * no warning while parsing
  * str(parse_relations(str(r))) == str(r)

Spaces: every atom of the component product; all ordered pairs over an atom core, in OR and in AND
position; all ordered triples over a smaller core in the four AND/OR shapes.

Aliasing pass (every atom again, and all ordered pairs over the triple core): the round trip has to be the identity
whatever the callers did with earlier results.  For a structure r with s = str(r): parse s twice (p1, p2); edit every
nested mutable part of p1 in place (append to 'arch', to the first group of 'restrictions' and to 'restrictions',
replace 'version', append an alternative to every group and a group to the conjunction); then

  * p2 is unchanged (two parse results may share objects only if no edit of one shows in the other)
  * str(r) is still s and leaves r unchanged
  * parse_relations(str(r)) is still r

and the edits are undone (so that no later case sees them, should the library share the edited objects).
"""
import itertools
import warnings
from contextlib import contextmanager

from .. import core

ID = "C13"
LEVEL = "model_checking"
RULE = ("Engine B on a grammar product: states = distinct generator prefixes (name, architecture qualifier, version "
        "constraint, architecture list, restriction formula for single atoms; atom, atom[, atom], AND/OR shape for "
        "pairs and triples); transitions = one-component extensions; traces = complete relation structures "
        "formatted with PkgRelation.str and parsed with parse_relations; evaluations = individual oracle "
        "comparisons (str does not raise, parse does not raise, no warning, structure equal, second str equal); "
        "non-trivial = structures in which some atom carries at least two of the four optional parts (so that "
        "optional regex groups are adjacent); sweep: one state / transition / trace per single fully featured atom in "
        "which one component carries one swept character; aliasing pass: one state / transition / trace per "
        "(structure, edit history) = format, parse twice, edit the first result in place everywhere, format and parse "
        "again; evaluations = its oracle comparisons; such a case is non-trivial when some atom has an architecture "
        "list or a restriction formula (a nested list that can be shared)")
BUDGET = {"quick": 240, "thorough": 3000}

KEYS = ("name", "archqual", "version", "arch", "restrictions")


def _sizes(tier):
    return (80, 12) if tier == "quick" else (320, 24)


def bounds(tier):
    pc, tc = _sizes(tier)
    return {"names": 4, "archqual": "5 (absent, any, native, i386, kfreebsd-amd64)",
            "version": "11 (absent, 5 operators x 2 versions)", "arch_lists": 4, "restriction_formulas": 4,
            "atoms": 3520, "pair_core": pc, "pairs": "%d ordered pairs x {OR, AND}" % (pc * pc),
            "triple_core": tc, "triples": "%d ordered triples x 4 AND/OR shapes" % (tc ** 3),
            "sweep": "one legal character at a time in one component of a fully featured single atom (%s): "
                     % SWEEP_BASE_TEXT + ", ".join("%s x %d" % (name, len(vals)) for name, vals in sweep_plan()),
            "aliasing": "every one of the 3520 atoms + %d ordered pairs over the triple core x {OR, AND}; edits per result: "
                        "append to every 'arch' list, to the first group of and to every 'restrictions' list, replace "
                        "every 'version', append an alternative to every group, append a group" % (tc * tc),
            "core_selection": "deterministic greedy cover of all 2-way combinations of component values and all 16 "
                              "presence masks of the optional parts, then an even stride; independent of the seed"}


def assumptions():
    return [
        "the empty conjunction and empty alternative groups are outside the domain (every alternative has a name)",
        "build-profile names are lower-case (parse_relations lower-cases the formula)",
        "architecture qualifier set extends DESIGN.md's {any, native, i386} by the hyphenated 'kfreebsd-amd64' - real "
        "architecture names contain '-', and without it the 'archqual class without -' mutant is invisible",
        "structures are compared with == (namedtuples compare as tuples); the second str() would fail on a result "
        "whose elements lost their attribute names",
        "seed rotates only a letter inside package and profile names; regex character classes seen are the same",
        "aliasing pass: 'identical structure' is a statement about every call, so a result may not depend on what a "
        "caller did to an earlier result; two results sharing objects (is) is only counted, it is reported when an "
        "in-place edit of one result shows in the other; the structure handed to PkgRelation.str must not be changed "
        "by the call",
        "sweep character sets (policy, not what the regex happens to take): package names a<c>b with c in [a-z0-9+.-], "
        "architecture qualifiers and architecture names a<c>b with c in [a-z0-9-], versions 1<c>2 with c in "
        "[A-Za-z0-9.+~-] and the epoch colon as '1:2', build-profile names a<c>b with c in [a-z0-9+.-] (the parser takes "
        "any run of non-blank characters and lower-cases it; upper case is therefore not demanded)",
    ]


# ------------------------------------------------------------------------------------------------
# components (plain data; the library's namedtuples are attached in build())

def comps(seed):
    L = core.rep(seed, ["a", "b", "q", "z"])
    P = core.rep(seed, ["a", "e", "k", "y"])
    ops = ("<<", "<=", "=", ">=", ">>")
    vers = ("1", "1:2.0-3~a+b")
    return {
        "name": [L, L + "1", "lib-x.y+z", "0" + L + "d"],
        "archqual": [None, "any", "native", "i386", "kfreebsd-amd64"],
        "version": [None] + [[op, v] for op in ops for v in vers],
        "arch": [None, [[True, "amd64"]], [[False, "i386"], [False, "hurd-any"]],
                 [[True, "linux-any"], [True, "kfreebsd-amd64"]]],
        "restrictions": [None, [[[True, "stage1"]]], [[[False, "nocheck"], [True, "cross"]]],
                         [[[False, P]], [[True, "b"], [False, "c"]]]],
    }


RADIX = (4, 5, 11, 4, 4)

# ------------------------------------------------------------------------------------------------
# sweep: one legal character at a time in a fully featured atom

_LOWER = "abcdefghijklmnopqrstuvwxyz"
_DIGITS = "0123456789"
SWEEP_BASE = ["pkg", "any", [">=", "1.0"], [[True, "linux-any"], [True, "kfreebsd-amd64"]],
              [[[False, "nocheck"], [True, "cross"]], [[True, "stage1"]]]]
SWEEP_BASE_TEXT = "pkg:any (>= 1.0) [linux-any kfreebsd-amd64] <!nocheck cross> <stage1>"


def sweep_plan():
    """-> [(component, [atom, ...])] in canonical order; every atom differs from SWEEP_BASE in one component"""
    name_c = list(_LOWER + _DIGITS + "+.-")
    arch_c = list(_LOWER + _DIGITS + "-")
    ver_c = list(_DIGITS + _LOWER + _LOWER.upper() + ".+~-") + [":"]

    def put(i, x):
        a = list(SWEEP_BASE)
        a[i] = x
        return a
    return [
        ("name", [put(0, "a%sb" % c) for c in name_c]),
        ("archqual", [put(1, "a%sb" % c) for c in arch_c]),
        ("version", [put(2, [op, "1%s2" % c]) for c in ver_c for op in (">=",)] +
                    [put(2, [op, "1%s2-3" % c]) for c in "+~." for op in ("<<", "=")]),
        ("arch", [put(3, a) for c in arch_c for a in ([[True, "a%sb" % c], [True, "amd64"]],
                                                      [[False, "i386"], [False, "a%sb" % c]])]),
        ("profile", [put(4, r) for c in name_c for r in ([[[False, "a%sb" % c], [True, "cross"]], [[True, "stage1"]]],
                                                         [[[True, "stage1"]], [[True, "cross"], [True, "a%sb" % c]]])]),
    ]



def all_indexes():
    return list(itertools.product(*[range(r) for r in RADIX]))


def atom(C, ix):
    return [C[k][i] for k, i in zip(KEYS, ix)]


def _greedy(cands, tg, n):
    """Pick up to n candidates, each time the first one covering most still-uncovered targets (a component
    value or value combination weighs more than a presence mask)."""
    uncovered = set(t for ts in tg for t in ts)
    picked, used = [], set()
    while uncovered and len(picked) < n:
        best, gain = None, 0
        for k, ts in enumerate(tg):
            if k not in used:
                g = sum((1 if t[0] == "mask" else 100) for t in ts if t in uncovered)
                if g > gain:
                    best, gain = k, g
        used.add(best)
        picked.append(best)
        uncovered.difference_update(tg[best])
    return picked, uncovered


def _fill(picked, total, n):
    """Extend picked to n candidates with an even stride over the rest."""
    used = set(picked)
    rest = [k for k in range(total) if k not in used]
    need = n - len(picked)
    out = sorted(picked + [rest[(i * len(rest)) // need] for i in range(need)])
    assert len(set(out)) == n
    return out


def select_core(n_pairs, n_triples):
    """Deterministic, seed-independent choice of atom index tuples (see bounds()['core_selection'])."""
    cands = all_indexes()

    def mask(ix):
        return ("mask",) + tuple(bool(x) for x in ix[1:])
    # pair core: every 2-way combination of component values + every presence mask of the optional parts
    tg2 = [[(i, ix[i], j, ix[j]) for i in range(5) for j in range(i + 1, 5)] + [mask(ix)] for ix in cands]
    picked, uncovered = _greedy(cands, tg2, n_pairs)
    assert not uncovered, "pair core too small for 2-way coverage"
    pair_core = _fill(picked, len(cands), n_pairs)
    # triple core: every component value + as many presence masks as fit
    tg1 = [[(i, ix[i]) for i in range(5)] + [mask(ix)] for ix in cands]
    picked, uncovered = _greedy(cands, tg1, n_triples)
    assert not [t for t in uncovered if t[0] != "mask"], "triple core misses a component value"
    triple_core = _fill(picked, len(cands), n_triples)
    return [cands[k] for k in pair_core], [cands[k] for k in triple_core]


# ------------------------------------------------------------------------------------------------
# oracle (shared by run_unit and replay)

def build(case_rels):
    from debian.deb822 import PkgRelation as R
    out = []
    for group in case_rels:
        g = []
        for name, archqual, version, arch, restr in group:
            g.append({
                "name": name, "archqual": archqual,
                "version": None if version is None else tuple(version),
                "arch": None if arch is None else [R.ArchRestriction(bool(e), a) for e, a in arch],
                "restrictions": None if restr is None else [[R.BuildRestriction(bool(e), p) for e, p in grp] for grp in restr],
            })
        out.append(g)
    return out


def _mask(d):
    return "n" + "".join(c for c, k in zip("qvar", KEYS[1:]) if d.get(k) is not None)


def where(got, want):
    """got != want: 'shape', 'keys' or the first differing key of the first differing atom"""
    if (not isinstance(got, list) or len(got) != len(want)
            or any(not isinstance(g, list) or len(g) != len(h) for g, h in zip(got, want))):
        return "shape"
    for g, h in zip(got, want):
        for x, y in zip(g, h):
            if x != y:
                if not isinstance(x, dict) or set(x) != set(y):
                    return "keys"
                return [k for k in KEYS if x[k] != y[k]][0]
    raise AssertionError("where(): no difference found")


def exec_case(case):
    """-> (violations, outcome class, evaluations)"""
    if case.get("alias"):
        return exec_alias(case)
    from debian.deb822 import PkgRelation as R
    rels = build(case["rels"])
    ev = 1
    try:
        s = R.str(rels)
    except Exception as e:
        return [("rel/str/raises:%s" % type(e).__name__, "a string", "%s: %s" % (type(e).__name__, e))], "str raises", ev
    ev += 1
    with warnings.catch_warnings(record=True) as w:
        warnings.simplefilter("always")
        try:
            back = R.parse_relations(s)
        except Exception as e:
            return ([("rel/parse/raises:%s" % type(e).__name__, rels, "%r -> %s: %s" % (s, type(e).__name__, e))],
                    "parse raises", ev)
    bad = []
    ev += 1
    if w:
        bad.append(("rel/parse/warning", "no warning for %r" % s, [str(x.message) for x in w]))
    ev += 1
    if back != rels:
        bad.append(("rel/parse/" + where(back, rels), "%r -> %r" % (s, rels), back))
    ev += 1
    try:
        s2 = R.str(back)
        if s2 != s:
            bad.append(("rel/restr/differs", s, s2))
    except Exception as e:
        bad.append(("rel/restr/raises:%s" % type(e).__name__, s, "%s: %s" % (type(e).__name__, e)))
    try:
        n = sum(len(g) for g in back)
        if n <= 2:
            outcome = ", ".join(" | ".join(_mask(d) for d in g) for g in back)
        else:
            outcome = "%s : %d optional parts" % (", ".join(" | ".join("n" for d in g) for g in back),
                                                  sum(len(_mask(d)) - 1 for g in back for d in g))
    except Exception:
        outcome = "unclassifiable result"
    if bad:
        outcome = "VIOLATION " + outcome
    return bad, outcome, ev


def nontrivial(case):
    if case.get("alias"):
        return alias_nontrivial(case)
    return any(sum(1 for x in a[1:] if x is not None) >= 2 for g in case["rels"] for a in g)


# ------------------------------------------------------------------------------------------------
# aliasing pass

EDIT_ARCH = "edited"
EDIT_PROFILE = "edited"
EDIT_VERSION = ("<<", "0~edited")


def _edited_atom():
    return {"name": "edited", "archqual": None, "version": None, "arch": None, "restrictions": None}


@contextmanager
def edited_in_place(parsed):
    """Edit every nested mutable part of a parse result in place; undo all of it on exit (in reverse order)."""
    from debian.deb822 import PkgRelation as R
    undo = []
    try:
        for group in parsed:
            for d in group:
                if isinstance(d.get("arch"), list):
                    d["arch"].append(R.ArchRestriction(True, EDIT_ARCH))
                    undo.append(d["arch"].pop)
                r = d.get("restrictions")
                if isinstance(r, list):
                    if r and isinstance(r[0], list):
                        r[0].append(R.BuildRestriction(False, EDIT_PROFILE))
                        undo.append(r[0].pop)
                    r.append([R.BuildRestriction(True, EDIT_PROFILE)])
                    undo.append(r.pop)
                undo.append(lambda d=d, v=d.get("version"): d.__setitem__("version", v))
                d["version"] = EDIT_VERSION
            group.append(_edited_atom())
            undo.append(group.pop)
        parsed.append([_edited_atom()])
        undo.append(parsed.pop)
        yield
    finally:
        for f in reversed(undo):
            f()


def shared_objects(p1, p2):
    """number of mutable objects (group lists, atom dicts, 'arch' lists, 'restrictions' lists and their groups) two
    parse results of the same text have in common"""
    n = 0
    for g, h in zip(p1, p2):
        n += g is h
        for x, y in zip(g, h):
            n += x is y
            for k in ("arch", "restrictions"):
                a, b = x.get(k), y.get(k)
                if isinstance(a, list):
                    n += a is b
                    if k == "restrictions" and isinstance(b, list):
                        n += sum(1 for u, v in zip(a, b) if isinstance(u, list) and u is v)
    return n


def _quiet_parse(s):
    from debian.deb822 import PkgRelation as R
    with warnings.catch_warnings():
        warnings.simplefilter("ignore")
        return R.parse_relations(s)


def exec_alias(case):
    """-> (violations, outcome class, evaluations).  What the ordinary case of the same structure reports (str or parse
    raising, a first round trip that is not the identity) is not reported again here."""
    from debian.deb822 import PkgRelation as R
    pristine = build(case["rels"])
    rels = build(case["rels"])
    mask = ", ".join(" | ".join("n" + "".join(c for c, k in (("a", "arch"), ("r", "restrictions")) if d[k] is not None)
                                for d in g) for g in pristine)
    if sum(len(g) for g in pristine) > 2:
        mask = "%d atoms" % sum(len(g) for g in pristine)
    try:
        s = R.str(rels)
        p1 = _quiet_parse(s)
        p2 = _quiet_parse(s)
    except Exception:
        return [], "alias: first round trip raises (see the ordinary case)", 1
    ev = 2
    if p1 != pristine:
        return [], "alias: first round trip differs (see the ordinary case)", ev
    bad = []
    if p2 != pristine:
        # no edit yet: the second parse of the same text differs from the first
        bad.append(("rel/alias/second-parse/" + where(p2, pristine), "%r -> %r, as the first time" % (s, pristine), p2))
        return bad, "VIOLATION alias: " + mask, ev
    shared = shared_objects(p1, p2)
    with edited_in_place(p1):
        ev += 1
        if p2 != pristine:
            bad.append(("rel/alias/results-share-state/" + where(p2, pristine),
                        "a second parse result of %r stays %r when the first one is edited in place" % (s, pristine),
                        repr(p2)))       # repr now: the edit is undone below
        ev += 2
        try:
            s_again = R.str(rels)
        except Exception as e:
            bad.append(("rel/alias/str-after-edit/raises:%s" % type(e).__name__, s, "%s: %s" % (type(e).__name__, e)))
            s_again = None
        if rels != pristine:
            bad.append(("rel/alias/str-changes-its-argument/" + where(rels, pristine),
                        "PkgRelation.str leaves %r as it is" % (pristine,), repr(rels)))
        if s_again is not None and s_again != s:
            bad.append(("rel/alias/str-after-edit/differs", s, s_again))
        if s_again is not None:
            ev += 1
            try:
                p3 = _quiet_parse(s_again)
                if p3 != pristine:
                    bad.append(("rel/alias/parse-after-edit/" + where(p3, pristine),
                                "%r -> %r also after an earlier result was edited in place" % (s_again, pristine), repr(p3)))
            except Exception as e:
                bad.append(("rel/alias/parse-after-edit/raises:%s" % type(e).__name__, s_again,
                            "%s: %s" % (type(e).__name__, e)))
    assert p1 == pristine, "edited_in_place did not undo its edits"
    outcome = "alias: %s%s" % (mask, "; results share objects" if shared else "")
    if bad:
        outcome = "VIOLATION " + outcome
    return bad, outcome, ev


def alias_nontrivial(case):
    return any(a[3] is not None or a[4] is not None for g in case["rels"] for a in g)


# ------------------------------------------------------------------------------------------------

_CORES = {}


def cores(tier):
    if tier not in _CORES:
        _CORES[tier] = select_core(*_sizes(tier))
    return _CORES[tier]


def units(tier, seed):
    out = [("atoms", n, q) for n in range(RADIX[0]) for q in range(RADIX[1])]
    pc, tc = cores(tier)          # computed once in the parent; units carry the cores to the workers
    out += [("pairs", i, pc) for i in range(len(pc))]
    out += [("triples", i, tc) for i in range(len(tc))]
    out += [("sweep", name) for name, _v in sweep_plan()]
    out += [("alias", n, q) for n in range(RADIX[0]) for q in range(RADIX[1])]
    out += [("alias-pairs", i, tc) for i in range(len(tc))]
    return out


def unit_cost(u, tier):
    if u[0] in ("atoms", "alias"):
        return 176
    if u[0] == "alias-pairs":
        return 2 * 2 * len(u[2])
    if u[0] == "pairs":
        return 2 * 2 * len(u[2])
    if u[0] == "sweep":
        return 80
    return 3 * 4 * len(u[2]) ** 2


TRIPLE_SHAPES = ("a|b|c", "a|b,c", "a,b|c", "a,b,c")


def shape_rels(shape, atoms):
    it = iter(atoms)
    return [[next(it) for _ in grp.split("|")] for grp in shape.split(",")]


def _do(part, case):
    bad, outcome, ev = exec_case(case)
    part.traces += 1
    part.evaluations += ev
    part.outcomes[outcome] += 1
    if nontrivial(case):
        part.nontrivial += 1
    for sig, exp, obs in bad:
        part.violation(sig, case, exp, obs)


def run_unit(u, tier, seed):
    part = core.Part()
    C = comps(seed)

    def node(n=1):
        part.states += n
        part.transitions += n
    if u[0] == "atoms":
        _, n, q = u
        node(1 + (q == 0))
        if (n, q) == (0, 0):
            part.states += 1   # root
        part.max_depth = 5
        for v in range(RADIX[2]):
            node()
            for a in range(RADIX[3]):
                node()
                for r in range(RADIX[4]):
                    node()
                    case = {"rels": [[atom(C, (n, q, v, a, r))]]}
                    _do(part, case)
                    part.extra["single atoms"] += 1
                    if (v, a, r) in ((0, 0, 0), (5, 2, 3)):
                        part.sample(case)
        return part
    if u[0] == "alias":
        _, n, q = u
        part.max_depth = 6
        for v in range(RADIX[2]):
            for a in range(RADIX[3]):
                for r in range(RADIX[4]):
                    node()
                    case = {"rels": [[atom(C, (n, q, v, a, r))]], "alias": 1}
                    _do(part, case)
                    part.extra["aliasing: single atoms"] += 1
                    if (v, a, r) == (5, 2, 3):
                        part.sample(case)
        return part
    if u[0] == "alias-pairs":
        _, i, tc = u
        a1 = atom(C, tc[i])
        part.max_depth = 11
        for shape in ("a|b", "a,b"):
            for ix in tc:
                node()
                case = {"rels": shape_rels(shape, [a1, atom(C, ix)]), "alias": 1}
                _do(part, case)
                part.extra["aliasing: pairs"] += 1
        if i % 4 == 0:
            part.sample(case)
        return part
    if u[0] == "sweep":
        atoms = dict(sweep_plan())[u[1]]
        part.max_depth = 5
        for a in atoms:
            node()
            case = {"rels": [[a]]}
            bad, outcome, ev = exec_case(case)
            part.traces += 1
            part.evaluations += ev
            part.outcomes["sweep/%s: %s" % (u[1], outcome)] += 1
            part.nontrivial += 1
            for sig, exp, obs in bad:
                part.violation(sig, case, exp, obs)
            part.extra["sweep atoms"] += 1
        part.sample({"rels": [[atoms[0]]]})
        return part
    if u[0] == "pairs":
        _, i, pc = u
        a1 = atom(C, pc[i])
        node()
        part.max_depth = 10
        for shape in ("a|b", "a,b"):
            node()
            for ix in pc:
                node()
                case = {"rels": shape_rels(shape, [a1, atom(C, ix)])}
                _do(part, case)
                part.extra["pairs"] += 1
        if i % 16 == 0:
            part.sample(case)
        return part
    _, i, tc = u
    a1 = atom(C, tc[i])
    node()
    part.max_depth = 15
    for jx in tc:
        node()
        for kx in tc:
            node()
            for shape in TRIPLE_SHAPES:
                node()
                case = {"rels": shape_rels(shape, [a1, atom(C, jx), atom(C, kx)])}
                _do(part, case)
                part.extra["triples"] += 1
    if i % 4 == 0:
        part.sample(case)
    return part


def replay(case):
    return exec_case(case)[0]


def repro_py(case):
    if case.get("alias"):
        return ("from debian.deb822 import PkgRelation as R\n"
                "case = %r\n"
                "def build():\n"
                "    return [[{'name': n, 'archqual': q, 'version': None if v is None else tuple(v),\n"
                "              'arch': None if a is None else [R.ArchRestriction(e, x) for e, x in a],\n"
                "              'restrictions': None if r is None else [[R.BuildRestriction(e, p) for e, p in g] for g in r]}\n"
                "             for n, q, v, a, r in group] for group in case]\n"
                "rels, pristine = build(), build()\n"
                "s = R.str(rels)\n"
                "p1, p2 = R.parse_relations(s), R.parse_relations(s)\n"
                "assert p1 == pristine and p2 == pristine\n"
                "for g in p1:                       # the owner of p1 edits it in place\n"
                "    for d in g:\n"
                "        if d['arch'] is not None:\n"
                "            d['arch'].append(R.ArchRestriction(True, 'edited'))\n"
                "        if d['restrictions'] is not None:\n"
                "            d['restrictions'][0].append(R.BuildRestriction(False, 'edited'))\n"
                "            d['restrictions'].append([R.BuildRestriction(True, 'edited')])\n"
                "        d['version'] = ('<<', '0~edited')\n"
                "    g.append(dict(g[0], name='edited'))\n"
                "p1.append([dict(p1[0][0], name='edited')])\n"
                "assert p2 == pristine, ('two results of parse_relations share state', p2)\n"
                "assert R.str(rels) == s and rels == pristine\n"
                "back = R.parse_relations(R.str(rels))\n"
                "assert back == pristine, (s, back)\n" % (case["rels"],))
    return ("import warnings\nfrom debian.deb822 import PkgRelation as R\n"
            "case = %r\n"
            "rels = [[{'name': n, 'archqual': q, 'version': None if v is None else tuple(v),\n"
            "          'arch': None if a is None else [R.ArchRestriction(e, x) for e, x in a],\n"
            "          'restrictions': None if r is None else [[R.BuildRestriction(e, p) for e, p in g] for g in r]}\n"
            "         for n, q, v, a, r in group] for group in case]\n"
            "s = R.str(rels)\n"
            "with warnings.catch_warnings(record=True) as w:\n"
            "    warnings.simplefilter('always')\n"
            "    back = R.parse_relations(s)\n"
            "assert not w, [str(x.message) for x in w]\n"
            "assert back == rels, (s, back)\n"
            "assert R.str(back) == s, R.str(back)\n" % (case["rels"],))
