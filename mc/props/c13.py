"""C13 - package relationship fields: PkgRelation.str and PkgRelation.parse_relations are inverse.

Engine B over a grammar product.  A relation structure (conjunction of alternatives of atoms) is built
directly from components in the very shape parse_relations returns - a list of lists of dicts with the keys
name, archqual, version ((relop, version) or None), arch (list of ArchRestriction or None), restrictions
(list of lists of BuildRestriction or None) - then formatted with PkgRelation.str, parsed back, compared:

  * parse_relations(str(r)) == r   (located: shape, then the first differing key of the first differing atom)
  * no warning while parsing
  * str(parse_relations(str(r))) == str(r)

Spaces: every atom of the component product; all ordered pairs over an atom core, in OR and in AND
position; all ordered triples over a smaller core in the four AND/OR shapes.

Aliasing pass (every atom again, and all ordered pairs over the triple core): the round trip has to be the identity
whatever the callers did with earlier results.  For a structure r with s = str(r): parse s twice (p1, p2); edit every
nested mutable part of p1 in place (append to 'arch', to the first group of 'restrictions' and to 'restrictions',
replace 'version', append an alternative to every group and a group to the conjunction); then

  * p2 is unchanged (two parse results may share objects only if no edit of one shows in the other)
  * str(r) is still s and leaves r unchanged
  * parse_relations(str(r)) is still r

and the edits are undone (so that no later case sees them, should the library share the edited objects).

Key-order pass: a relation dict is a dict - two dicts with the same items are the same structure whatever the order in
which their keys were inserted.  Every atom is built again with its keys inserted in other orders (reversed, 'name'
last, the keys that carry a value first) and - PkgRelation.str reads the optional parts with
dict.get - with the optional keys whose value is None left out (in canonical order, reversed); the atoms of the pair
core in all 120 insertion orders of the five keys and all orders of 'name' + the keys that carry a value; ordered pairs
over the triple core with independently chosen orders for the two atoms.  Then

  * PkgRelation.str gives the same string as for the canonical dict and leaves its argument (key order included) alone
  * parse_relations of it gives the canonical structure without a warning, and str of that the same string

Repetition pass: relations in which equal alternatives / equal groups occur more than once ([[a],[a]], [[a, a]],
[[a],[b],[a]], [[a, b],[c],[a, b]], ...) over the pair core, built from equal but distinct objects and from one shared
object per distinct atom / group.

Ladders (beyond the small scope): for every n in 1..40 and 63 64 65 100 127 128 129 255 256 257 999 1000 1001 1025 2500 2501
5000 one structure with n architectures in a list, n terms in a restriction group, n groups in a formula, n alternatives in
an or-group, n or-groups in a relation (four to six arrangements each: plain / negated / alternating / the odd one first,
last or in the middle; bare names or atoms rotating through every combination of optional parts); for every L in 120..135,
255..257 and around 1000, 4 Ki, 16 Ki, 64 Ki, 128 Ki, 256 Ki a restriction group / architecture list whose text is exactly
L characters and a name / version / qualifier of L characters.  Generated from the compact case, judged by the round-trip
oracle and at Sources / Packages .relations; signatures start with the family ("ladder/alternatives/rel/parse/...").
"""
import itertools
import warnings
from contextlib import contextmanager

from .. import core

ID = "C13"
LEVEL = "model_checking"
RULE = ("Engine B on a grammar product: states = distinct generator prefixes (name, architecture qualifier, version "
        "constraint, architecture list, restriction formula for single atoms; atom, atom[, atom], AND/OR shape for "
        "pairs and triples); transitions = one-component extensions; traces = complete relation structures "
        "formatted with PkgRelation.str and parsed with parse_relations; evaluations = individual oracle "
        "comparisons (str does not raise, parse does not raise, no warning, structure equal, second str equal); "
        "non-trivial = structures in which some atom carries at least two of the four optional parts (so that "
        "optional regex groups are adjacent); sweep: one state / transition / trace per single fully featured atom in "
        "which one component carries one swept character; aliasing pass: one state / transition / trace per "
        "(structure, edit history) = format, parse twice, edit the first result in place everywhere, format and parse "
        "again; evaluations = its oracle comparisons; such a case is non-trivial when some atom has an architecture "
        "list or a restriction formula (a nested list that can be shared); key-order pass: one state / transition / "
        "trace per (structure, key insertion order of each atom); such a case is non-trivial when for some atom the "
        "keys that carry a value are not in canonical order or a None-valued key is left out; repetition pass: one "
        "state / transition / trace per (shape with repeated atoms or groups, object sharing); non-trivial by the "
        "rule for ordinary structures; calling-convention pass: one state / transition / trace per structure, every "
        "other way of calling PkgRelation.str (8) and parse_relations (6) an evaluation each; paragraph-construction pass: "
        "one state / transition / trace per (structure, class, field, way the paragraph came into being, way of reading); "
        "ladders: one state / transition / trace per (family, n or L, arrangement, via), non-trivial when n >= 4")
BUDGET = {"quick": 240, "thorough": 3000}

KEYS = ("name", "archqual", "version", "arch", "restrictions")


def _sizes(tier):
    # thorough: the pair core is the complete atom product (every atom), the triple core 96 atoms
    return (80, 12) if tier == "quick" else (N_ATOMS, 96)


ALL = "all"          # in a work unit: stands for the complete atom list (not shipped to the workers with every unit)
_ALL_INDEXES = []


def _core(x):
    """the core a work unit names: a list of index tuples, or ALL = every atom in canonical order"""
    if x != ALL:
        return x
    if not _ALL_INDEXES:
        _ALL_INDEXES.extend(all_indexes())
    return _ALL_INDEXES


def _core_len(x):
    return len(_core(x))


def bounds(tier):
    pc, tc = _sizes(tier)
    return {"names": RADIX[0], "archqual": "%d (absent, any, native, i386, kfreebsd-amd64)" % RADIX[1],
            "version": "%d (absent, 5 operators x 2 versions)" % RADIX[2],
            "arch_lists": "%d (absent, one name, two negated names, two plain names, negated / plain / negated, plain / negated)"
                          % RADIX[3],
            "restriction_formulas": RADIX[4],
            "atoms": N_ATOMS,
            "pair_core": pc if pc < N_ATOMS else "%d = every atom of the product (all ordered pairs of atoms)" % N_ATOMS,
            "pairs": "%d ordered pairs x {OR, AND}" % (pc * pc),
            "triple_core": tc, "triples": "%d ordered triples x 4 AND/OR shapes" % (tc ** 3),
            "sweep": "one legal character at a time in one component of a fully featured single atom (%s): "
                     % SWEEP_BASE_TEXT + ", ".join("%s x %d" % (name, len(vals)) for name, vals in sweep_plan()),
            "aliasing": "every one of the %d atoms + %d ordered pairs over the triple core x {OR, AND}; edits per result: "
                        "append to every 'arch' list, to the first group of and to every 'restrictions' list, replace "
                        "every 'version', append an alternative to every group, append a group" % (N_ATOMS, tc * tc),
            "key_orders": "every one of the %d atoms x up to %d non-canonical key lists (%s; duplicates for an atom "
                          "dropped); every pair-core atom x all 120 insertion orders of the five keys and all orders of "
                          "('name' + the keys that carry a value); %d ordered pairs over the triple core x {OR, AND} x up "
                          "to 15 combinations of per-atom key lists from (%s)"
                          % (N_ATOMS, len(NAMED_ORDERS), ", ".join(NAMED_ORDERS), tc * tc, ", ".join(PAIR_ORDERS)),
            "repetitions": "every pair-core atom a (b, c = the next two core atoms) x shapes %s x {equal but distinct "
                           "objects, one shared object per distinct atom and group}; cases already in the pair / triple "
                           "spaces are not repeated" % ", ".join(REPEAT_SHAPES),
            "at_relations": "the formatted string as the value of a relationship field of Packages (%d fields), Sources (%d) or "
                            "BuildInfo (1), read back through .relations: every atom once and every pair-core atom x "
                            "(a|b, a,b + the repetition shapes), each under one (class, field, way of reading) of the %d "
                            "combinations in rotation; 7 structures under every combination; ways of reading: %s; also "
                            "checked: no warning, the neighbouring field, absent fields = [], the key set"
                            % (len(MIXIN_FIELDS["Packages"]), len(MIXIN_FIELDS["Sources"]), len(MIXIN_COMBOS),
                               ", ".join(MIXIN_ACCESS)),
            "calling_conventions": {"structures": "every one of the %d atoms, %d ordered pairs over the triple core x {OR, AND}, "
                                                  "the sweep atoms" % (N_ATOMS, tc * tc),
                                    "str": STR_ROUTES, "parse_relations": PARSE_ROUTES},
            "paragraph_construction": {"ways": MIXIN_CTORS[1:], "reading": MIXIN_CTOR_ACCESS,
                                       "structures": "every atom once, each under one (class, field, way, reading) of the %d "
                                                     "combinations in rotation; 4 structures under every (class, field, way)"
                                                     % len(MIXIN_CTOR_COMBOS)},
            "beyond_the_small_scope": ladder_bounds(tier),
            "core_selection": "deterministic greedy cover of all 2-way combinations of component values and all 16 "
                              "presence masks of the optional parts, then an even stride; independent of the seed"}


def assumptions():
    return [
        "the empty conjunction and empty alternative groups are outside the domain (every alternative has a name)",
        "build-profile names are lower-case (parse_relations lower-cases the formula)",
        "architecture qualifier set extends DESIGN.md's {any, native, i386} by the hyphenated 'kfreebsd-amd64' - real "
        "architecture names contain '-', and without it the 'archqual class without -' mutant is invisible",
        "structures are compared with == (namedtuples compare as tuples); the second str() would fail on a result "
        "whose elements lost their attribute names",
        "seed rotates only a letter inside package and profile names; regex character classes seen are the same",
        "aliasing pass: 'identical structure' is a statement about every call, so a result may not depend on what a "
        "caller did to an earlier result; two results sharing objects (is) is only counted, it is reported when an "
        "in-place edit of one result shows in the other; the structure handed to PkgRelation.str must not be changed "
        "by the call",
        "key-order pass: a structure is a list of lists of dicts and dict equality ignores insertion order, so 'every "
        "structured relationship' includes dicts whose keys were inserted in any order; the expected string is the one "
        "PkgRelation.str gives for the canonically ordered equal dict (itself checked by the ordinary case)",
        "a dict that leaves out an optional key stands for the structure with that key None: PkgRelation.str reads "
        "archqual, version, arch and restrictions with dict.get() (lib/debian/deb822.py pp_atomic_dep) and the unchanged "
        "library formats {'name': 'a'} as 'a'; for such a dict the round trip is demanded against the structure with all "
        "five keys (parse_relations always returns all five), under signatures rel/omitted-keys/*; 'name' is never left out",
        "repetition pass: a conjunction / an alternative group is a list, not a set - equal members may occur more than "
        "once and each occurrence is formatted; the same object may occur at several positions",
        "calling-convention pass: PkgRelation.str is a static method and parse_relations a class method, so calling them on "
        "an instance or on a sub-class, or naming their documented parameters (rels, raw), is the same call; a structure is "
        "a sequence of sequences of mappings - tuples in place of the lists, OrderedDict / dict sub-class objects in place "
        "of the dicts and a deep copy hold the same items and must format to the same string (own signatures rel/call/*); "
        "left out: one-shot iterators in place of the lists (the annotation says List) and a pickle round trip of a parse "
        "result (the nested namedtuple classes cannot be pickled on the unchanged library: PicklingError)",
        "paragraph-construction pass: .relations of a paragraph is defined by the fields it has when it is constructed "
        "(lazy parse of those fields), so only ways of construction are varied; a paragraph that is assigned the field "
        "after construction reports [] for it on the unchanged library and is therefore dumped and read again; other "
        "paragraphs of the same class alive at the same time must not matter",
        "ladders: the statement bounds neither the number of architectures, restriction terms, groups, alternatives or or-groups "
        "nor the length of a name, version, qualifier, architecture list or restriction group; ladder components stay inside "
        "the character sets of the small scope (lower-case profile names, names and versions over the policy characters); the "
        "ladders are exhaustive in n / L with a fixed handful of arrangements per step",
        "sweep character sets (policy, not what the regex happens to take): package names a<c>b with c in [a-z0-9+.-], "
        "architecture qualifiers and architecture names a<c>b with c in [a-z0-9-], versions 1<c>2 with c in "
        "[A-Za-z0-9.+~-] and the epoch colon as '1:2', build-profile names a<c>b with c in [a-z0-9+.-] (the parser takes "
        "any run of non-blank characters and lower-cases it; upper case is therefore not demanded)",
    ]


# ------------------------------------------------------------------------------------------------
# components (plain data; the library's namedtuples are attached in build())

def comps(seed):
    L = core.rep(seed, ["a", "b", "q", "z"])
    P = core.rep(seed, ["a", "e", "k", "y"])
    ops = ("<<", "<=", "=", ">=", ">>")
    vers = ("1", "1:2.0-3~a+b")
    return {
        "name": [L, L + "1", "lib-x.y+z", "0" + L + "d"],
        "archqual": [None, "any", "native", "i386", "kfreebsd-amd64"],
        "version": [None] + [[op, v] for op in ops for v in vers],
        # the last two mix negated and plain names in one list, in both orders (a parser that carries the '!' of one
        # name over to the next one is invisible on lists that are all negated or all plain)
        "arch": [None, [[True, "amd64"]], [[False, "i386"], [False, "hurd-any"]],
                 [[True, "linux-any"], [True, "kfreebsd-amd64"]],
                 [[False, "i386"], [True, "amd64"], [False, "hurd-any"]], [[True, "amd64"], [False, "i386"]]],
        "restrictions": [None, [[[True, "stage1"]]], [[[False, "nocheck"], [True, "cross"]]],
                         [[[False, P]], [[True, "b"], [False, "c"]]]],
    }


RADIX = tuple(len(comps(0)[k]) for k in KEYS)        # (4, 5, 11, 6, 4)
N_ATOMS = 1
for _r in RADIX:
    N_ATOMS *= _r
PER_UNIT = RADIX[2] * RADIX[3] * RADIX[4]            # atoms per (name, archqual) unit

# ------------------------------------------------------------------------------------------------
# sweep: one legal character at a time in a fully featured atom

_LOWER = "abcdefghijklmnopqrstuvwxyz"
_DIGITS = "0123456789"
SWEEP_BASE = ["pkg", "any", [">=", "1.0"], [[True, "linux-any"], [True, "kfreebsd-amd64"]],
              [[[False, "nocheck"], [True, "cross"]], [[True, "stage1"]]]]
SWEEP_BASE_TEXT = "pkg:any (>= 1.0) [linux-any kfreebsd-amd64] <!nocheck cross> <stage1>"


def sweep_plan():
    """-> [(component, [atom, ...])] in canonical order; every atom differs from SWEEP_BASE in one component"""
    name_c = list(_LOWER + _DIGITS + "+.-")
    arch_c = list(_LOWER + _DIGITS + "-")
    ver_c = list(_DIGITS + _LOWER + _LOWER.upper() + ".+~-") + [":"]

    def put(i, x):
        a = list(SWEEP_BASE)
        a[i] = x
        return a
    return [
        ("name", [put(0, "a%sb" % c) for c in name_c]),
        ("archqual", [put(1, "a%sb" % c) for c in arch_c]),
        ("version", [put(2, [op, "1%s2" % c]) for c in ver_c for op in (">=",)] +
                    [put(2, [op, "1%s2-3" % c]) for c in "+~." for op in ("<<", "=")]),
        ("arch", [put(3, a) for c in arch_c for a in ([[True, "a%sb" % c], [True, "amd64"]],
                                                      [[False, "i386"], [False, "a%sb" % c]])]),
        ("profile", [put(4, r) for c in name_c for r in ([[[False, "a%sb" % c], [True, "cross"]], [[True, "stage1"]]],
                                                         [[[True, "stage1"]], [[True, "cross"], [True, "a%sb" % c]]])]),
        # equal things more than once inside one atom: the same group twice in a formula, the same term twice in a group,
        # the same architecture twice in a list (they are what was given, so they come back)
        ("repeats-inside", [put(4, [[[False, "cross"], [True, "stage1"]], [[True, "nocheck"]], [[False, "cross"], [True, "stage1"]]]),
                            put(4, [[[True, "x"]], [[True, "x"]]]),
                            put(4, [[[True, "x"], [True, "x"], [False, "y"]]]),
                            put(3, [[True, "amd64"], [True, "i386"], [True, "amd64"]]),
                            put(3, [[False, "armel"], [False, "armel"]])]),
    ]



def all_indexes():
    return list(itertools.product(*[range(r) for r in RADIX]))


def atom(C, ix):
    return [C[k][i] for k, i in zip(KEYS, ix)]


def _greedy(cands, tg, n):
    """Pick up to n candidates, each time the first one covering most still-uncovered targets (a component
    value or value combination weighs more than a presence mask)."""
    uncovered = set(t for ts in tg for t in ts)
    picked, used = [], set()
    while uncovered and len(picked) < n:
        best, gain = None, 0
        for k, ts in enumerate(tg):
            if k not in used:
                g = sum((1 if t[0] == "mask" else 100) for t in ts if t in uncovered)
                if g > gain:
                    best, gain = k, g
        used.add(best)
        picked.append(best)
        uncovered.difference_update(tg[best])
    return picked, uncovered


def _fill(picked, total, n):
    """Extend picked to n candidates with an even stride over the rest."""
    used = set(picked)
    rest = [k for k in range(total) if k not in used]
    need = n - len(picked)
    out = sorted(picked + [rest[(i * len(rest)) // need] for i in range(need)])
    assert len(set(out)) == n
    return out


def select_core(n_pairs, n_triples):
    """Deterministic, seed-independent choice of atom index tuples (see bounds()['core_selection'])."""
    cands = all_indexes()

    def mask(ix):
        return ("mask",) + tuple(bool(x) for x in ix[1:])
    # pair core: every 2-way combination of component values + every presence mask of the optional parts
    tg2 = [[(i, ix[i], j, ix[j]) for i in range(5) for j in range(i + 1, 5)] + [mask(ix)] for ix in cands]
    picked, uncovered = _greedy(cands, tg2, n_pairs)
    assert not uncovered, "pair core too small for 2-way coverage"
    pair_core = _fill(picked, len(cands), n_pairs)
    # triple core: every component value + as many presence masks as fit
    tg1 = [[(i, ix[i]) for i in range(5)] + [mask(ix)] for ix in cands]
    picked, uncovered = _greedy(cands, tg1, n_triples)
    assert not [t for t in uncovered if t[0] != "mask"], "triple core misses a component value"
    triple_core = _fill(picked, len(cands), n_triples)
    return [cands[k] for k in pair_core], [cands[k] for k in triple_core]


# ------------------------------------------------------------------------------------------------
# key insertion orders and repetition shapes

NAMED_ORDERS = ("reversed", "name last", "keys with a value first",
                "None-valued keys omitted", "None-valued keys omitted + reversed")
PAIR_ORDERS = ("canonical", "reversed", "None-valued keys omitted + name last")
REPEAT_SHAPES = ("a,a", "a|a", "a,b,a", "b,a,a", "a,a,b", "a|b|a", "a|a|b", "a,a,a", "a|a|a", "a|a,a", "a,a|a",
                 "a|b,a|b", "a|b,b|a", "a|b,c,a|b", "a,b,a,b", "a,b,c,a", "a|b|a|b", "b,a|a,c")


def named_key_list(a, order):
    """the key list (insertion order; keys not listed are left out) of atom a = [name, archqual, ...] for a named order"""
    opt = list(KEYS[1:])
    have = [k for k, v in zip(opt, a[1:]) if v is not None]
    none = [k for k in opt if k not in have]
    return {
        "canonical": list(KEYS),
        "reversed": list(KEYS[::-1]),
        "name last": opt + ["name"],
        "alphabetical": sorted(KEYS),
        "name first + rest reversed": ["name"] + opt[::-1],
        "version/arch swapped": ["name", "archqual", "arch", "version", "restrictions"],
        "keys with a value first": ["name"] + have + none,
        "None-valued keys first": none + ["name"] + have,
        "None-valued keys omitted": ["name"] + have,
        "None-valued keys omitted + reversed": have[::-1] + ["name"],
        "None-valued keys omitted + name last": have + ["name"],
    }[order]


def key_lists(a, orders=NAMED_ORDERS):
    """distinct non-canonical key lists of atom a for the given named orders, in that order"""
    out = []
    for o in orders:
        kl = named_key_list(a, o)
        if kl != list(KEYS) and kl not in out:
            out.append(kl)
    return out


def perm_key_lists(a):
    """every insertion order of the five keys and of ('name' + the keys that carry a value) that key_lists(a) lacks"""
    have = ["name"] + [k for k, v in zip(KEYS[1:], a[1:]) if v is not None]
    named = key_lists(a)
    out = []
    for base in (list(KEYS), have):
        for p in itertools.permutations(base):
            kl = list(p)
            if kl != list(KEYS) and kl not in named and kl not in out:
                out.append(kl)
    return out


def pair_key_lists(a1, a2):
    out = []
    for o1 in PAIR_ORDERS:
        for o2 in PAIR_ORDERS:
            kk = [named_key_list(a1, o1), named_key_list(a2, o2)]
            if kk != [list(KEYS), list(KEYS)] and kk not in out:
                out.append(kk)
    return out


def letters_rels(shape, atoms):
    """'a|b,c,a|b' with atoms {'a': ..., 'b': ..., 'c': ...} -> [[a, b], [c], [a, b]]"""
    return [[atoms[x] for x in grp.split("|")] for grp in shape.split(",")]


# ------------------------------------------------------------------------------------------------
# oracle (shared by run_unit and replay)

def build(case_rels, keys=None, share=False):
    """keys: one key list per atom (in reading order; cycled) = the order in which the dict's keys are inserted, keys not
    listed are left out; share: one dict object per distinct (atom, key list) and one list object per distinct group"""
    from debian.deb822 import PkgRelation as R
    out = []
    k = 0
    atoms, groups = {}, {}
    for group in case_rels:
        g = []
        for a in group:
            name, archqual, version, arch, restr = a
            kl = list(KEYS) if not keys else keys[k % len(keys)]
            k += 1
            memo = repr((a, kl)) if share else None
            if share and memo in atoms:
                g.append(atoms[memo])
                continue
            full = {
                "name": name, "archqual": archqual,
                "version": None if version is None else tuple(version),
                "arch": None if arch is None else [R.ArchRestriction(bool(e), x) for e, x in arch],
                "restrictions": None if restr is None else [[R.BuildRestriction(bool(e), p) for e, p in grp] for grp in restr],
            }
            assert "name" in kl and len(set(kl)) == len(kl) and all(full[x] is None for x in KEYS if x not in kl), kl
            d = full if not keys else dict((x, full[x]) for x in kl)
            atoms[memo] = d
            g.append(d)
        if share:
            g = groups.setdefault(tuple(id(d) for d in g), g)
        out.append(g)
    return out


def _mask(d):
    return "n" + "".join(c for c, k in zip("qvar", KEYS[1:]) if d.get(k) is not None)


def where(got, want):
    """got != want: 'shape', 'keys' or the first differing key of the first differing atom"""
    if (not isinstance(got, list) or len(got) != len(want)
            or any(not isinstance(g, list) or len(g) != len(h) for g, h in zip(got, want))):
        return "shape"
    for g, h in zip(got, want):
        for x, y in zip(g, h):
            if x != y:
                if not isinstance(x, dict) or set(x) != set(y):
                    return "keys"
                return [k for k in KEYS if x[k] != y[k]][0]
    raise AssertionError("where(): no difference found")


def exec_case(case):
    """-> (violations, outcome class, evaluations)"""
    if case.get("ladder"):
        return exec_ladder(case)
    if case.get("alias"):
        return exec_alias(case)
    if case.get("keys"):
        return exec_keys(case)
    if case.get("mixin"):
        return exec_mixin(case)
    if case.get("calls"):
        return exec_calls(case)
    from debian.deb822 import PkgRelation as R
    rels = build(case["rels"], share=bool(case.get("share")))
    ev = 1
    try:
        s = R.str(rels)
    except Exception as e:
        return [("rel/str/raises:%s" % type(e).__name__, "a string", "%s: %s" % (type(e).__name__, e))], "str raises", ev
    ev += 1
    with warnings.catch_warnings(record=True) as w:
        warnings.simplefilter("always")
        try:
            back = R.parse_relations(s)
        except Exception as e:
            return ([("rel/parse/raises:%s" % type(e).__name__, rels, "%r -> %s: %s" % (s, type(e).__name__, e))],
                    "parse raises", ev)
    bad = []
    ev += 1
    if w:
        bad.append(("rel/parse/warning", "no warning for %r" % s, [str(x.message) for x in w]))
    ev += 1
    if back != rels:
        bad.append(("rel/parse/" + where(back, rels), "%r -> %r" % (s, rels), back))
    ev += 1
    try:
        s2 = R.str(back)
        if s2 != s:
            bad.append(("rel/restr/differs", s, s2))
    except Exception as e:
        bad.append(("rel/restr/raises:%s" % type(e).__name__, s, "%s: %s" % (type(e).__name__, e)))
    try:
        n = sum(len(g) for g in back)
        if n <= 2:
            outcome = ", ".join(" | ".join(_mask(d) for d in g) for g in back)
        else:
            outcome = "%s : %d optional parts" % (", ".join(" | ".join("n" for d in g) for g in back),
                                                  sum(len(_mask(d)) - 1 for g in back for d in g))
    except Exception:
        outcome = "unclassifiable result"
    if bad:
        outcome = "VIOLATION " + outcome
    return bad, outcome, ev


# ------------------------------------------------------------------------------------------------
# the same two functions called another way / handed the same structure in another shape

STR_ROUTES = ["on-an-instance", "keyword-argument", "on-a-sub-class", "tuples-for-lists", "ordered-dict-atoms",
              "dict-sub-class-atoms", "deep-copy-of-the-structure", "the-parse-result-again"]
PARSE_ROUTES = ["on-an-instance", "keyword-argument", "on-a-sub-class", "on-an-instance-of-a-sub-class", "second-call",
                "after-an-unparsable-text"]


_SUB = {}


class _AtomDict(dict):
    """a dict sub-class: still a dict with the same items"""


def exec_calls(case):
    """-> (violations, outcome class, evaluations): PkgRelation.str / parse_relations reached through the other calling
    conventions give what the plain calls give.  What the ordinary case reports is not reported again here."""
    import collections
    import copy
    from debian.deb822 import PkgRelation as R

    Sub = _SUB.get(R)
    if Sub is None:
        Sub = _SUB[R] = type("Sub", (R,), {})
    pristine = build(case["rels"])
    rels = build(case["rels"])
    try:
        s0 = R.str(rels)
        back0 = _quiet_parse(s0)
    except Exception:
        return [], "calls: the plain round trip raises (see the ordinary case)", 1
    if back0 != pristine:
        return [], "calls: the plain round trip differs (see the ordinary case)", 2
    bad = []
    ev = 2
    for rn in STR_ROUTES:
        ev += 1
        try:
            if rn == "on-an-instance":
                s = R().str(rels)
            elif rn == "keyword-argument":
                s = R.str(rels=rels)
            elif rn == "on-a-sub-class":
                s = Sub.str(rels)
            elif rn == "tuples-for-lists":
                s = R.str(tuple(tuple(g) for g in rels))
            elif rn == "ordered-dict-atoms":
                s = R.str([[collections.OrderedDict(d) for d in g] for g in rels])
            elif rn == "dict-sub-class-atoms":
                s = R.str([[_AtomDict(d) for d in g] for g in rels])
            elif rn == "deep-copy-of-the-structure":
                s = R.str(copy.deepcopy(rels))
            else:
                s = R.str(back0)
        except Exception as e:
            bad.append(("rel/call/str/%s/raises:%s" % (rn, type(e).__name__), s0, "%s: %s" % (type(e).__name__, e)))
            continue
        if s != s0:
            bad.append(("rel/call/str/%s/differs" % rn, s0, s))
        if rels != pristine:
            bad.append(("rel/call/str/%s/changes-its-argument" % rn, pristine, repr(rels)))
            rels = build(case["rels"])
    for rn in PARSE_ROUTES:
        ev += 1
        with warnings.catch_warnings(record=True) as w:
            warnings.simplefilter("always")
            try:
                if rn == "on-an-instance":
                    back = R().parse_relations(s0)
                elif rn == "keyword-argument":
                    back = R.parse_relations(raw=s0)
                elif rn == "on-a-sub-class":
                    back = Sub.parse_relations(s0)
                elif rn == "on-an-instance-of-a-sub-class":
                    back = Sub().parse_relations(s0)
                elif rn == "second-call":
                    R.parse_relations(s0)
                    back = R.parse_relations(s0)
                else:
                    with warnings.catch_warnings():
                        warnings.simplefilter("ignore")
                        R.parse_relations("a (>= 1, b [")        # warns and is returned raw: nothing may be left behind
                    back = R.parse_relations(s0)
            except Exception as e:
                bad.append(("rel/call/parse/%s/raises:%s" % (rn, type(e).__name__), pristine, "%r -> %s: %s" % (s0, type(e).__name__, e)))
                continue
        if w:
            bad.append(("rel/call/parse/%s/warning" % rn, "no warning for %r" % s0, [str(x.message) for x in w]))
        if back != pristine:
            bad.append(("rel/call/parse/%s/%s" % (rn, where(back, pristine)), "%r -> %r" % (s0, pristine), back))
    n = sum(len(g) for g in pristine)
    outcome = "calls: %s" % (", ".join(" | ".join(_mask(d) for d in g) for g in pristine) if n <= 2 else "%d atoms" % n)
    return bad, ("VIOLATION " if bad else "") + outcome, ev


# ------------------------------------------------------------------------------------------------
# the same round trip observed at the paragraph classes: Packages(...).relations etc.

MIXIN_FIELDS = {
    "Packages": ["Depends", "Pre-Depends", "Recommends", "Suggests", "Breaks", "Conflicts", "Provides", "Replaces",
                 "Enhances", "Built-Using"],
    "Sources": ["Build-Depends", "Build-Depends-Indep", "Build-Depends-Arch", "Build-Conflicts", "Build-Conflicts-Indep",
                "Build-Conflicts-Arch", "Binary"],
    "BuildInfo": ["Installed-Build-Depends"],
}
MIXIN_ACCESS = ["subscript", "subscript-field-spelling", "get", "items", "values", "dict", "iteration", "twice",
                "neighbour-first", "absent-first", "keys-first"]
MIXIN_COMBOS = [(c, f, a) for c in ("Packages", "Sources", "BuildInfo") for f in range(len(MIXIN_FIELDS[c]))
                for a in MIXIN_ACCESS]


# how the paragraph that carries the formatted string comes into being (4th element of case["mixin"]; absent = "text")
MIXIN_CTORS = ["text", "assigned-then-dumped", "mapping", "mapping-keyword", "bytes", "lines", "BytesIO", "iter_paragraphs",
               "iter_paragraphs-BytesIO", "iter_paragraphs-no-apt-pkg", "fields-filter", "field-name-lower-case",
               "field-name-upper-case", "from-another-paragraph", "copy", "two-paragraphs-other-read-first",
               "two-paragraphs-other-built-later"]
MIXIN_CTOR_ACCESS = ["subscript", "get", "items"]
MIXIN_CTOR_COMBOS = [(c, f, a, k) for c in ("Packages", "Sources", "BuildInfo") for f in range(len(MIXIN_FIELDS[c]))
                     for k in MIXIN_CTORS[1:] for a in MIXIN_CTOR_ACCESS]


def mixin_construct(cls, f, s, neighbour, ctor):
    """-> (the paragraph whose field f holds the formatted string s, description of its source)"""
    import io
    pairs = [("Package", "x"), (f, s)] + ([(neighbour, "other-pkg")] if neighbour else [])
    text = "".join("%s: %s\n" % kv for kv in pairs)
    other_pairs = [("Package", "y"), (f, "zz-other (<< 9) [amd64] <stage1>, zz-b | zz-c")]
    other_text = "".join("%s: %s\n" % kv for kv in other_pairs)
    if ctor == "text":
        return cls(text), text
    if ctor == "assigned-then-dumped":
        p = cls()
        for k, v in pairs:
            p[k] = v
        return cls(p.dump()), "dump of assignments %r" % (pairs,)
    if ctor == "mapping":
        return cls(dict(pairs)), "mapping %r" % (dict(pairs),)
    if ctor == "mapping-keyword":
        return cls(sequence=dict(pairs), encoding="utf-8"), "sequence=%r" % (dict(pairs),)
    if ctor == "bytes":
        return cls(text.encode("utf-8")), "bytes %r" % text
    if ctor == "lines":
        return cls(text.splitlines()), "lines %r" % text
    if ctor == "BytesIO":
        return cls(io.BytesIO(text.encode("utf-8"))), "BytesIO %r" % text
    if ctor in ("iter_paragraphs", "iter_paragraphs-BytesIO", "iter_paragraphs-no-apt-pkg"):
        doc = other_text + "\n" + text + "\n" + other_text
        src = io.BytesIO(doc.encode("utf-8")) if ctor == "iter_paragraphs-BytesIO" else doc
        ps = list(cls.iter_paragraphs(src, use_apt_pkg=False) if ctor == "iter_paragraphs-no-apt-pkg" else cls.iter_paragraphs(src))
        if len(ps) != 3:
            raise ValueError("iter_paragraphs gave %d paragraphs" % len(ps))
        ps[0].relations, ps[2].relations
        return ps[1], "second of three paragraphs of %r" % doc
    if ctor == "fields-filter":
        return cls(text, fields=[k for k, _v in pairs]), "fields= all of %r" % text
    if ctor in ("field-name-lower-case", "field-name-upper-case"):
        t2 = "".join("%s: %s\n" % ((k.lower() if ctor.endswith("lower-case") else k.upper()) if k == f else k, v) for k, v in pairs)
        return cls(t2), t2
    if ctor == "from-another-paragraph":
        return cls(cls(text)), "cls(cls(%r))" % text
    if ctor == "copy":
        return cls(text).copy(), "cls(%r).copy()" % text
    if ctor == "two-paragraphs-other-read-first":
        other = cls(other_text)
        p = cls(text)
        other.relations[f.lower()]
        return p, "%r while cls(%r) is alive and was read first" % (text, other_text)
    if ctor == "two-paragraphs-other-built-later":
        p = cls(text)
        other = cls(other_text)
        other.relations[f.lower()]
        _KEEP.append(other)
        del _KEEP[:-4]
        return p, "%r, cls(%r) built and read afterwards" % (text, other_text)
    raise AssertionError(ctor)


_KEEP = []


def mixin_access(rel, key, spelled, neighbour, absent, how):
    """the value of `key` out of the .relations mapping `rel`, reached in one of the ways a mapping offers"""
    if how == "subscript":
        return rel[key]
    if how == "subscript-field-spelling":
        return rel[spelled]
    if how == "get":
        return rel.get(key)
    if how == "items":
        return dict(rel.items())[key]
    if how == "values":
        return list(rel.values())[list(rel.keys()).index(key)]
    if how == "dict":
        return dict(rel)[key]
    if how == "iteration":
        return [rel[k] for k in rel if k == key][0]
    if how == "twice":
        rel[key]
        return rel[key]
    if how == "neighbour-first":
        rel[neighbour.lower()]
        return rel[key]
    if how == "absent-first":
        rel[absent.lower()]
        return rel[key]
    if how == "keys-first":
        sorted(rel.keys())
        return rel[key]
    raise AssertionError(how)


def exec_mixin(case):
    from debian import deb822
    R = deb822.PkgRelation
    cname, fi, how = case["mixin"][:3]
    ctor = case["mixin"][3] if len(case["mixin"]) > 3 else "text"
    fields = MIXIN_FIELDS[cname]
    f = fields[fi]
    neighbour = fields[(fi + 1) % len(fields)] if len(fields) > 1 else None
    absent = fields[(fi + 2) % len(fields)] if len(fields) > 2 else None
    if how == "neighbour-first" and neighbour is None or how == "absent-first" and absent is None:
        how = "subscript"
    rels = build(case["rels"])
    ev = 1
    try:
        s = R.str(rels)
    except Exception as e:
        return [("rel/str/raises:%s" % type(e).__name__, "a string", "%s: %s" % (type(e).__name__, e))], "str raises", ev
    text = "Package: x\n%s: %s\n" % (f, s)
    if neighbour:
        text += "%s: other-pkg\n" % neighbour
    sig0 = "rel/at-%s.relations/" % cname + ("" if ctor == "text" else "built-by-%s/" % ctor)
    with warnings.catch_warnings(record=True) as w:
        warnings.simplefilter("always")
        try:
            if ctor == "text":
                obj = getattr(deb822, cname)(text)
            else:
                with warnings.catch_warnings():
                    warnings.simplefilter("ignore")        # iter_paragraphs: "apt_pkg was requested but ..." is not about relations
                    obj, text = mixin_construct(getattr(deb822, cname), f, s, neighbour, ctor)
            rel = obj.relations
            got = mixin_access(rel, f.lower(), f, neighbour, absent, how)
            rest = dict((k.lower(), rel[k.lower()]) for k in fields if k != f)
            keys = sorted(rel.keys())
        except Exception as e:
            return ([(sig0 + "raises:%s" % type(e).__name__, rels, "%s(%r).relations, %s: %s: %s" % (
                cname, text, how, type(e).__name__, e))], "mixin raises", ev + 1)
    bad = []
    ev += 4
    if w:
        bad.append((sig0 + "warning", "no warning for %r" % text, [str(x.message) for x in w]))
    if got != rels:
        bad.append((sig0 + "value", "%s(%r).relations, %s -> %r" % (cname, text, how, rels), got))
    want_rest = dict((k.lower(), []) for k in fields if k != f)
    if neighbour:
        want_rest[neighbour.lower()] = [[{"name": "other-pkg", "archqual": None, "version": None, "arch": None,
                                          "restrictions": None}]]
    if rest != want_rest:
        bad.append((sig0 + "other-fields", want_rest, rest))
    if keys != sorted(k.lower() for k in fields):
        bad.append((sig0 + "keys", sorted(k.lower() for k in fields), keys))
    if not bad:
        try:
            s2 = R.str(got)
            if s2 != s:
                bad.append((sig0 + "restr-differs", s, s2))
        except Exception as e:
            bad.append((sig0 + "restr-raises:%s" % type(e).__name__, s, "%s: %s" % (type(e).__name__, e)))
    outcome = "%s.relations%s read by %s: %s" % (cname, "" if ctor == "text" else " of a paragraph built by " + ctor, how,
                                                 "VIOLATION" if bad else "equals the structure")
    return bad, outcome, ev


def _items(rels):
    return [[list(d.items()) for d in g] for g in rels]


def exec_keys(case):
    """-> (violations, outcome class, evaluations): the structure built with other key insertion orders formats as the
    canonically ordered one and parses back to it.  What the ordinary case reports is not reported again here."""
    from debian.deb822 import PkgRelation as R
    canon = build(case["rels"])
    rels = build(case["rels"], keys=case["keys"], share=bool(case.get("share")))
    flat = [d for g in rels for d in g]
    omitted = any(len(d) < len(KEYS) for d in flat)
    fam = "rel/omitted-keys" if omitted else "rel/keyorder"
    if not omitted:
        assert rels == canon
    n_perm = sum(1 for d in flat if [k for k in d if d[k] is not None] != [k for k in KEYS if d.get(k) is not None])
    if len(flat) == 1:
        cls = "%s: %s, %s%s" % (fam[4:], _mask(flat[0]),
                                "keys with a value out of order" if n_perm else "keys with a value in order",
                                ", %d left out" % (len(KEYS) - len(flat[0])) if omitted else "")
    else:
        cls = "%s: %d atoms, %d with the keys that carry a value out of order%s" % (
            fam[4:], len(flat), n_perm, ", some left out" if omitted else "")
    try:
        s0 = R.str(canon)
    except Exception:
        return [], "keys: str of the canonical dict raises (see the ordinary case)", 1
    before = _items(rels)
    ev = 2
    try:
        s = R.str(rels)
    except Exception as e:
        return ([(fam + "/str/raises:%s" % type(e).__name__, s0, "%r -> %s: %s" % (rels, type(e).__name__, e))],
                "VIOLATION " + cls, ev)
    bad = []
    ev += 1
    if _items(rels) != before:
        bad.append((fam + "/str-changes-its-argument", before, _items(rels)))
    ev += 1
    if s != s0:
        bad.append((fam + "/str/differs", "%r as for the equal dict with keys in canonical order, for %r" % (s0, rels), s))
    ev += 1
    with warnings.catch_warnings(record=True) as w:
        warnings.simplefilter("always")
        try:
            back = R.parse_relations(s)
        except Exception as e:
            bad.append((fam + "/parse/raises:%s" % type(e).__name__, canon, "%r -> %s: %s" % (s, type(e).__name__, e)))
            return bad, "VIOLATION " + cls, ev
    ev += 1
    if w:
        bad.append((fam + "/parse/warning", "no warning for %r" % s, [str(x.message) for x in w]))
    ev += 1
    if back != canon:
        bad.append((fam + "/parse/" + where(back, canon), "%r -> %r" % (s, canon), back))
    ev += 1
    try:
        s2 = R.str(back)
        if s2 != s:
            bad.append((fam + "/restr/differs", s, s2))
    except Exception as e:
        bad.append((fam + "/restr/raises:%s" % type(e).__name__, s, "%s: %s" % (type(e).__name__, e)))
    if bad:
        # what the canonically ordered structure shows too is the ordinary case's finding
        ordinary = set(sig for sig, _e, _o in exec_case({"rels": case["rels"]})[0])
        bad = [b for b in bad if "rel" + b[0][len(fam):] not in ordinary]
    return bad, ("VIOLATION " if bad else "") + cls, ev


def keys_nontrivial(case):
    k = 0
    for g in case["rels"]:
        for a in g:
            kl = case["keys"][k % len(case["keys"])]
            k += 1
            have = ["name"] + [x for x, v in zip(KEYS[1:], a[1:]) if v is not None]
            if len(kl) < len(KEYS) or [x for x in kl if x in have] != have:
                return True
    return False


def nontrivial(case):
    if case.get("alias"):
        return alias_nontrivial(case)
    if case.get("calls"):
        return any(sum(1 for x in a[1:] if x is not None) >= 2 for g in case["rels"] for a in g)
    if case.get("keys"):
        return keys_nontrivial(case)
    return any(sum(1 for x in a[1:] if x is not None) >= 2 for g in case["rels"] for a in g)


# ------------------------------------------------------------------------------------------------
# aliasing pass

EDIT_ARCH = "edited"
EDIT_PROFILE = "edited"
EDIT_VERSION = ("<<", "0~edited")


def _edited_atom():
    return {"name": "edited", "archqual": None, "version": None, "arch": None, "restrictions": None}


@contextmanager
def edited_in_place(parsed):
    """Edit every nested mutable part of a parse result in place; undo all of it on exit (in reverse order)."""
    from debian.deb822 import PkgRelation as R
    undo = []
    try:
        for group in parsed:
            for d in group:
                if isinstance(d.get("arch"), list):
                    d["arch"].append(R.ArchRestriction(True, EDIT_ARCH))
                    undo.append(d["arch"].pop)
                r = d.get("restrictions")
                if isinstance(r, list):
                    if r and isinstance(r[0], list):
                        r[0].append(R.BuildRestriction(False, EDIT_PROFILE))
                        undo.append(r[0].pop)
                    r.append([R.BuildRestriction(True, EDIT_PROFILE)])
                    undo.append(r.pop)
                undo.append(lambda d=d, v=d.get("version"): d.__setitem__("version", v))
                d["version"] = EDIT_VERSION
            group.append(_edited_atom())
            undo.append(group.pop)
        parsed.append([_edited_atom()])
        undo.append(parsed.pop)
        yield
    finally:
        for f in reversed(undo):
            f()


def shared_objects(p1, p2):
    """number of mutable objects (group lists, atom dicts, 'arch' lists, 'restrictions' lists and their groups) two
    parse results of the same text have in common"""
    n = 0
    for g, h in zip(p1, p2):
        n += g is h
        for x, y in zip(g, h):
            n += x is y
            for k in ("arch", "restrictions"):
                a, b = x.get(k), y.get(k)
                if isinstance(a, list):
                    n += a is b
                    if k == "restrictions" and isinstance(b, list):
                        n += sum(1 for u, v in zip(a, b) if isinstance(u, list) and u is v)
    return n


def _quiet_parse(s):
    from debian.deb822 import PkgRelation as R
    with warnings.catch_warnings():
        warnings.simplefilter("ignore")
        return R.parse_relations(s)


def exec_alias(case):
    """-> (violations, outcome class, evaluations).  What the ordinary case of the same structure reports (str or parse
    raising, a first round trip that is not the identity) is not reported again here."""
    from debian.deb822 import PkgRelation as R
    pristine = build(case["rels"])
    rels = build(case["rels"])
    mask = ", ".join(" | ".join("n" + "".join(c for c, k in (("a", "arch"), ("r", "restrictions")) if d[k] is not None)
                                for d in g) for g in pristine)
    if sum(len(g) for g in pristine) > 2:
        mask = "%d atoms" % sum(len(g) for g in pristine)
    try:
        s = R.str(rels)
        p1 = _quiet_parse(s)
        p2 = _quiet_parse(s)
    except Exception:
        return [], "alias: first round trip raises (see the ordinary case)", 1
    ev = 2
    if p1 != pristine:
        return [], "alias: first round trip differs (see the ordinary case)", ev
    bad = []
    if p2 != pristine:
        # no edit yet: the second parse of the same text differs from the first
        bad.append(("rel/alias/second-parse/" + where(p2, pristine), "%r -> %r, as the first time" % (s, pristine), p2))
        return bad, "VIOLATION alias: " + mask, ev
    shared = shared_objects(p1, p2)
    with edited_in_place(p1):
        ev += 1
        if p2 != pristine:
            bad.append(("rel/alias/results-share-state/" + where(p2, pristine),
                        "a second parse result of %r stays %r when the first one is edited in place" % (s, pristine),
                        repr(p2)))       # repr now: the edit is undone below
        ev += 2
        try:
            s_again = R.str(rels)
        except Exception as e:
            bad.append(("rel/alias/str-after-edit/raises:%s" % type(e).__name__, s, "%s: %s" % (type(e).__name__, e)))
            s_again = None
        if rels != pristine:
            bad.append(("rel/alias/str-changes-its-argument/" + where(rels, pristine),
                        "PkgRelation.str leaves %r as it is" % (pristine,), repr(rels)))
        if s_again is not None and s_again != s:
            bad.append(("rel/alias/str-after-edit/differs", s, s_again))
        if s_again is not None:
            ev += 1
            try:
                p3 = _quiet_parse(s_again)
                if p3 != pristine:
                    bad.append(("rel/alias/parse-after-edit/" + where(p3, pristine),
                                "%r -> %r also after an earlier result was edited in place" % (s_again, pristine), repr(p3)))
            except Exception as e:
                bad.append(("rel/alias/parse-after-edit/raises:%s" % type(e).__name__, s_again,
                            "%s: %s" % (type(e).__name__, e)))
    assert p1 == pristine, "edited_in_place did not undo its edits"
    outcome = "alias: %s%s" % (mask, "; results share objects" if shared else "")
    if bad:
        outcome = "VIOLATION " + outcome
    return bad, outcome, ev


def alias_nontrivial(case):
    return any(a[3] is not None or a[4] is not None for g in case["rels"] for a in g)


# ------------------------------------------------------------------------------------------------


# ------------------------------------------------------------------------------------------------
# beyond the small scope: count ladders and size ladders.  A case is {"ladder": family, "n": n or L, "arr": arrangement,
# "via": "" (PkgRelation.str -> parse_relations) or [class, field index, way of reading] (the string as a field of a
# paragraph, read through .relations), "L": letter}; the structure is generated from it (ladder_rels) and judged by the
# oracles above, the family in front of the signature.

LADDER_NS = list(range(1, 41)) + [63, 64, 65, 100, 127, 128, 129, 255, 256, 257, 999, 1000, 1001, 1025, 2500, 2501, 5000]
SIZE_LS = list(range(120, 136)) + [255, 256, 257, 997, 998, 999, 1000, 4095, 4096, 4097, 16383, 16384, 16385, 65535, 65536, 65537,
                                   131071, 131072, 131073, 262143, 262144, 262145]
LADDER_VIAS = ["", ["Sources", 0, "subscript"], ["Packages", 0, "items"]]
LADDER_FAMS = {
    "ladder/architectures": ["plain", "negated", "alternating", "first-negated", "last-negated", "middle-plain"],
    "ladder/restriction-terms": ["plain", "negated", "alternating", "first-negated", "last-negated", "in-second-group"],
    "ladder/restriction-groups": ["one-term", "two-terms", "growing", "negated-last-group"],
    "ladder/alternatives": ["plain", "featured", "versions", "last-featured"],
    "ladder/or-groups": ["plain", "featured", "two-alternatives", "last-featured"],
}
SIZE_FAMS = {
    "size/restriction-group-text": ["one-term", "terms-of-7", "second-of-three-groups", "negated-terms"],
    "size/architecture-list-text": ["one-name", "names-of-7", "negated-names"],
    "size/name": ["plain", "dots-and-hyphens"],
    "size/version": ["plain", "epoch-and-revision"],
    "size/archqual": ["plain"],
}
_ARCHES = ["amd64", "i386", "hurd-any", "linux-any", "kfreebsd-amd64"]


def ladder_bounds(tier):
    return {"counts": "n = 1..40, 63, 64, 65, 100, 127, 128, 129, 255, 256, 257, 999, 1000, 1001, 1025, 2500, 2501, 5000 (every n)",
            "count_families": dict(LADDER_FAMS),
            "count_meaning": {"ladder/architectures": "one atom (name, version, the list, one restriction group) with n architectures in its list",
                              "ladder/restriction-terms": "one atom with n terms in one restriction group",
                              "ladder/restriction-groups": "one atom with n groups in its restriction formula (one term each; two; 1, 2, 3, 1, ... terms)",
                              "ladder/alternatives": "n alternatives in one or-group, followed by a second or-group (bare names; atoms whose "
                                                     "optional parts rotate through all 16 presence masks; versions)",
                              "ladder/or-groups": "n or-groups in one relation (likewise; two alternatives each)"},
            "sizes": "L = 120..135, 255, 256, 257, 997..1000, 4095..4097, 16383..16385, 65535..65537, 131071..131073, 262143..262145",
            "size_families": dict(SIZE_FAMS),
            "size_meaning": "the text of one restriction group '<...>' / of one architecture list '[...]' of exactly L characters (one long "
                            "name; names of 7 characters and a filler name), a package name / version / architecture qualifier of L characters",
            "vias": "every ladder structure through PkgRelation.str -> parse_relations; at quick up to 257 elements (counts) / 16385 "
                    "characters (sizes, Sources only), at thorough always, also as the value of %s, read through .relations; texts made of "
                    "many 7-character words stop at 65537 characters at quick"
                    % ", ".join("%s %s (%s)" % (v[0], MIXIN_FIELDS[v[0]][v[1]], v[2]) for v in LADDER_VIAS[1:])}


def _featured(i, L):
    """atom number i with its optional parts present by the bits of i"""
    q = ("any", "native", "i386", "kfreebsd-amd64")[i // 16 % 4] if i & 1 else None
    v = [("<<", "<=", "=", ">=", ">>")[i % 5], "%d:%d.0-%d~%s" % (i % 3, i, i % 7, L)] if i & 2 else None
    a = [[bool((i + k) % 3), _ARCHES[(i + k) % 5]] for k in range(1 + i % 3)] if i & 4 else None
    r = [[[bool((i + g + k) % 2), "p%d%s" % (k, L)] for k in range(1 + (i + g) % 2)] for g in range(1 + i // 8 % 2)] if i & 8 else None
    return ["%s%d-x.y+z" % (L, i), q, v, a, r]


def _filled(L, width, unit, neg=False):
    """-> words whose ' '.join has exactly `width` characters: words of len(unit)+digits ..., the last one padded"""
    words = []
    used = 0
    i = 0
    while True:
        w = ("!" if neg and i % 2 == 0 else "") + (unit + "%d" % (i % 10))[:7 - (1 if neg and i % 2 == 0 else 0)]
        rest = width - used - (1 if words else 0)
        if rest <= len(w) + 2:
            # the last word takes what is left (at least one character)
            if rest <= 0:
                last = words.pop()
                used -= len(last) + (1 if words else 0)
                rest = width - used - (1 if words else 0)
            words.append(("z" * rest))
            break
        words.append(w)
        used += len(w) + (1 if len(words) > 1 else 0)
        i += 1
    assert len(" ".join(words)) == width, (width, len(" ".join(words)))
    return words


def ladder_rels(case):
    fam, n, arr, L = case["ladder"], case["n"], case["arr"], case["L"]

    def flags(n, arr):
        return [{"plain": True, "negated": False, "alternating": i % 2 == 0, "first-negated": i != 0, "last-negated": i != n - 1,
                 "middle-plain": i == n // 2, "in-second-group": i % 3 != 1}[arr] for i in range(n)]
    if fam == "ladder/architectures":
        arch = [[f, "%s-a%d" % (_ARCHES[i % 5], i)] for i, f in enumerate(flags(n, arr))]
        return [[[L + "1", None, [">=", "1.0"], arch, [[[False, "nocheck"]]]]], [["after", None, None, None, None]]]
    if fam == "ladder/restriction-terms":
        terms = [[f, "p%d%s" % (i, L)] for i, f in enumerate(flags(n, arr))]
        groups = [terms] if arr != "in-second-group" else [[[True, "stage1"]], terms, [[False, "cross"]]]
        return [[[L + "1", "any", None, [[True, "amd64"]], groups]], [["after", None, None, None, None]]]
    if fam == "ladder/restriction-groups":
        groups = []
        for i in range(n):
            k = {"one-term": 1, "two-terms": 2, "growing": 1 + i % 3, "negated-last-group": 1}[arr]
            groups.append([[(i + j) % 2 == 0 if arr != "negated-last-group" else i != n - 1, "g%dt%d%s" % (i, j, L)] for j in range(k)])
        return [[[L + "1", None, ["<<", "2"], None, groups], ["alt", None, None, None, None]]]

    def member(i, n, arr):
        if arr == "plain" or arr == "two-alternatives":
            return ["%s%d" % (L, i), None, None, None, None]
        if arr == "versions":
            return ["%s%d" % (L, i), None, [("<<", "<=", "=", ">=", ">>")[i % 5], "%d.%d" % (i, i % 7)], None, None]
        if arr == "last-featured":
            return _featured(15 + 16 * (i % 4), L) if i == n - 1 else ["%s%d" % (L, i), None, None, None, None]
        return _featured(i, L)
    if fam == "ladder/alternatives":
        return [[member(i, n, arr) for i in range(n)], [["after", None, None, None, None], ["or-this", "any", None, None, None]]]
    if fam == "ladder/or-groups":
        if arr == "two-alternatives":
            return [[member(i, n, arr), ["%s%dalt" % (L, i), None, ["=", "%d" % i], None, None]] for i in range(n)]
        return [[member(i, n, arr)] for i in range(n)]
    # sizes: n is the length L of the text
    if fam == "size/restriction-group-text":
        width = n - 2                         # without the angle brackets
        if arr == "one-term":
            words = ["p" * width]
        else:
            words = _filled(n, width, "pr" + L, neg=(arr == "negated-terms"))
        terms = [[not w.startswith("!"), w.lstrip("!")] for w in words]
        groups = [terms] if arr != "second-of-three-groups" else [[[True, "stage1"]], terms, [[False, "cross"]]]
        return [[[L + "1", None, [">=", "1"], [[True, "amd64"]], groups]], [["after", None, None, None, None]]]
    if fam == "size/architecture-list-text":
        width = n - 2
        words = ["a" * width] if arr == "one-name" else _filled(n, width, "ar-", neg=(arr == "negated-names"))
        arch = [[not w.startswith("!"), w.lstrip("!")] for w in words]
        return [[[L + "1", None, [">=", "1"], arch, [[[True, "stage1"]]]]], [["after", None, None, None, None]]]
    if fam == "size/name":
        name = L * n if arr == "plain" else (L + ("." + L * 5 + "-" + L * 5 + "+") * (n // 13 + 1))[:n - 1] + "0"
        return [[[name, "any", [">=", "1"], None, None], ["alt", None, None, None, None]], [[name, None, None, None, None]]]
    if fam == "size/version":
        v = "1" * n if arr == "plain" else "1:" + ("2.0~" + L + "+") * ((n - 4) // 6) + "9" * ((n - 4) % 6) + "-3"
        assert len(v) == n, (n, len(v))
        return [[[L + "1", None, ["=", v], [[True, "amd64"]], None]], [["after", None, None, None, None]]]
    if fam == "size/archqual":
        return [[[L + "1", (L + "-") * ((n - 1) // 2) + "x" * (n - 2 * ((n - 1) // 2)), ["=", "1"], None, None]], [["after", None, None, None, None]]]
    raise AssertionError(fam)


def exec_ladder(case):
    inner = {"rels": ladder_rels(case)}
    if case.get("via"):
        inner["mixin"] = list(case["via"])
    bad, outcome, ev = exec_case(inner)
    return [(case["ladder"] + "/" + b[0], core._short(b[1], 400), core._short(b[2], 400)) for b in bad], outcome, ev


MANY_WORDS = ("terms-of-7", "second-of-three-groups", "negated-terms", "names-of-7", "negated-names")


def ladder_vias(fam, arr, n, tier):
    """beyond 257 elements / 16385 characters only the anchored pair of functions is run at quick (a paragraph around a
    long value costs more than the value)"""
    if tier != "quick":
        return LADDER_VIAS
    if fam in LADDER_FAMS:
        return LADDER_VIAS if n <= 257 else LADDER_VIAS[:1]
    return LADDER_VIAS[:2] if n <= 16385 else LADDER_VIAS[:1]


def ladder_cases(fam, arr, seed, tier="quick"):
    L = comps(seed)["name"][0]
    ns = LADDER_NS if fam in LADDER_FAMS else SIZE_LS
    if tier == "quick" and arr in MANY_WORDS:
        ns = [n for n in ns if n <= 65537]          # 256 Ki of 7-character words are 37 000 namedtuples per structure
    return [{"ladder": fam, "n": n, "arr": arr, "via": via, "L": L} for n in ns for via in ladder_vias(fam, arr, n, tier)]


def _n_class(n):
    return "n<=3" if n <= 3 else "n<=40" if n <= 40 else "n<=257" if n <= 257 else "n<=1025" if n <= 1025 else "n>=2500"


def _ladder_unit(part, u, seed, tier):
    _, fam, arr = u
    size = fam.startswith("size/")
    cases = ladder_cases(fam, arr, seed, tier)
    for case in cases:
        bad, outcome, ev = exec_ladder(case)
        part.states += 1
        part.transitions += 1
        part.traces += 1
        part.evaluations += ev
        via = "str-parse" if not case["via"] else "%s.relations" % case["via"][0]
        part.outcomes["%s %s %s via %s: %s" % (fam, arr, "L" if size else _n_class(case["n"]), via, "VIOLATION" if bad else "round trip")] += 1
        part.extra["structures of a size ladder" if size else "structures of a count ladder"] += 1
        if case["n"] >= 4:
            part.nontrivial += 1
        for sig, exp, obs in bad:
            part.violation(sig, case, exp, obs)
        part.max_depth = max(part.max_depth, 5 if size else case["n"])
    part.sample(cases[len(cases) // 3])
    return part


_CORES = {}


def cores(tier):
    if tier not in _CORES:
        _CORES[tier] = select_core(*_sizes(tier))
    return _CORES[tier]


def units(tier, seed):
    out = [("atoms", n, q) for n in range(RADIX[0]) for q in range(RADIX[1])]
    pc, tc = cores(tier)          # computed once in the parent; units carry the cores to the workers
    npc = len(pc)
    if pc == all_indexes():
        pc = ALL                  # every atom: the workers rebuild the list themselves
    # the cheap per-atom units are batched when the pair core is large (a batch is a (first, end) index range)
    batch = 1 if npc <= 320 else 16
    firsts = list(range(npc)) if batch == 1 else [(i, min(i + batch, npc)) for i in range(0, npc, batch)]
    out += [("pairs", i, pc) for i in range(npc)]
    out += [("triples", i, tc) for i in range(len(tc))]
    out += [("sweep", name) for name, _v in sweep_plan()]
    out += [("alias", n, q) for n in range(RADIX[0]) for q in range(RADIX[1])]
    out += [("alias-pairs", i, tc) for i in range(len(tc))]
    out += [("keys", n, q) for n in range(RADIX[0]) for q in range(RADIX[1])]
    out += [("keys-perm", i, pc) for i in firsts]
    out += [("keys-pairs", i, tc) for i in range(len(tc))]
    out += [("repeat", i, pc, tc) for i in firsts]
    # the round trip read at Packages / Sources / BuildInfo .relations: every atom once, the repetition shapes, and a few
    # structures under every (class, field, way of reading the mapping)
    out += [("mixin-atoms", n, q) for n in range(RADIX[0]) for q in range(RADIX[1])]
    out += [("mixin-repeat", i, pc) for i in firsts]
    out += [("mixin-access", c) for c in ("Packages", "Sources", "BuildInfo")]
    # the other routes: calling conventions (every atom, pairs over the triple core, the sweep atoms) and other ways a
    # paragraph with a relationship field comes into being
    out += [("calls", n, q) for n in range(RADIX[0]) for q in range(RADIX[1])]
    out += [("calls-more", tc)]
    out += [("mixin-ctor-atoms", n, q) for n in range(RADIX[0]) for q in range(RADIX[1])]
    out += [("mixin-ctor-all", c) for c in ("Packages", "Sources", "BuildInfo")]
    out += [("ladder", f, a) for f in sorted(LADDER_FAMS) for a in LADDER_FAMS[f]]
    out += [("ladder", f, a) for f in sorted(SIZE_FAMS) for a in SIZE_FAMS[f]]
    return out


def _first_indexes(i):
    """the first-atom indexes of a per-atom unit: one index, or a (first, end) range"""
    return range(*i) if isinstance(i, tuple) else (i,)


def unit_cost(u, tier):
    if u[0] == "ladder":
        return 20000
    if u[0] in ("atoms", "alias"):
        return PER_UNIT
    if u[0] == "alias-pairs":
        return 2 * 2 * len(u[2])
    if u[0] == "pairs":
        return 2 * 2 * _core_len(u[2])
    if u[0] == "sweep":
        return 80
    if u[0] == "keys":
        return PER_UNIT * 4
    if u[0] == "keys-perm":
        return 130 * len(_first_indexes(u[1]))
    if u[0] == "keys-pairs":
        return 2 * 8 * len(u[2])
    if u[0] == "repeat":
        return 2 * len(REPEAT_SHAPES) * len(_first_indexes(u[1]))
    if u[0] == "mixin-atoms":
        return PER_UNIT * 2
    if u[0] == "mixin-repeat":
        return 2 * (len(REPEAT_SHAPES) + 2) * len(_first_indexes(u[1]))
    if u[0] == "mixin-access":
        return 5 * len(MIXIN_FIELDS[u[1]]) * len(MIXIN_ACCESS) * 2
    if u[0] == "calls":
        return PER_UNIT * 6
    if u[0] == "calls-more":
        return 8 * (2 * len(u[1]) ** 2 + 300)
    if u[0] == "mixin-ctor-atoms":
        return PER_UNIT * 3
    if u[0] == "mixin-ctor-all":
        return 4 * len(MIXIN_FIELDS[u[1]]) * len(MIXIN_CTORS) * 3
    return 3 * 4 * len(u[2]) ** 2


TRIPLE_SHAPES = ("a|b|c", "a|b,c", "a,b|c", "a,b,c")


def shape_rels(shape, atoms):
    it = iter(atoms)
    return [[next(it) for _ in grp.split("|")] for grp in shape.split(",")]


def _do(part, case):
    bad, outcome, ev = exec_case(case)
    part.traces += 1
    part.evaluations += ev
    part.outcomes[outcome] += 1
    if nontrivial(case):
        part.nontrivial += 1
    for sig, exp, obs in bad:
        part.violation(sig, case, exp, obs)


def run_unit(u, tier, seed):
    part = core.Part()
    C = comps(seed)

    def node(n=1):
        part.states += n
        part.transitions += n
    if u[0] == "ladder":
        return _ladder_unit(part, u, seed, tier)
    if u[0] == "atoms":
        _, n, q = u
        node(1 + (q == 0))
        if (n, q) == (0, 0):
            part.states += 1   # root
        part.max_depth = 5
        for v in range(RADIX[2]):
            node()
            for a in range(RADIX[3]):
                node()
                for r in range(RADIX[4]):
                    node()
                    case = {"rels": [[atom(C, (n, q, v, a, r))]]}
                    _do(part, case)
                    part.extra["single atoms"] += 1
                    if (v, a, r) in ((0, 0, 0), (5, 2, 3)):
                        part.sample(case)
        return part
    if u[0] == "mixin-atoms":
        _, n, q = u
        part.max_depth = 6
        for v in range(RADIX[2]):
            for a in range(RADIX[3]):
                for r in range(RADIX[4]):
                    node()
                    k = ((((n * RADIX[1] + q) * RADIX[2] + v) * RADIX[3] + a) * RADIX[4] + r) * 7 + seed
                    case = {"rels": [[atom(C, (n, q, v, a, r))]], "mixin": list(MIXIN_COMBOS[k % len(MIXIN_COMBOS)])}
                    _do(part, case)
                    part.extra["at .relations: single atoms"] += 1
                    if (v, a, r) == (5, 2, 3):
                        part.sample(case)
        return part
    if u[0] == "mixin-repeat":
        _, ii, pc = u
        pc = _core(pc)
        part.max_depth = 20
        for i in _first_indexes(ii):
            abc = dict((x, atom(C, pc[(i + j) % len(pc)])) for j, x in enumerate("abc"))
            for si, shape in enumerate(("a|b", "a,b") + REPEAT_SHAPES):
                node()
                k = (i * 31 + si) * 5 + seed
                case = {"rels": letters_rels(shape, abc), "mixin": list(MIXIN_COMBOS[k % len(MIXIN_COMBOS)])}
                _do(part, case)
                part.extra["at .relations: pairs and repetition shapes"] += 1
        part.sample(case)
        return part
    if u[0] == "mixin-access":
        cname = u[1]
        part.max_depth = 20
        idx = all_indexes()
        picks = [idx[0], idx[len(idx) // 3], idx[len(idx) // 2], idx[-1]]
        abc = dict((x, atom(C, picks[j + 1])) for j, x in enumerate("abc"))
        structures = [[[atom(C, ix)]] for ix in picks] + [letters_rels(sh, abc) for sh in ("a|b,c", "a,b,a", "a|a,b|c")]
        for rels in structures:
            for fi in range(len(MIXIN_FIELDS[cname])):
                for how in MIXIN_ACCESS:
                    node()
                    case = {"rels": rels, "mixin": [cname, fi, how]}
                    _do(part, case)
                    part.extra["at .relations: every class x field x way of reading"] += 1
        part.sample(case)
        return part
    if u[0] == "calls":
        _, n, q = u
        part.max_depth = 6
        for v in range(RADIX[2]):
            for a in range(RADIX[3]):
                for r in range(RADIX[4]):
                    node()
                    case = {"rels": [[atom(C, (n, q, v, a, r))]], "calls": 1}
                    _do(part, case)
                    part.extra["calling conventions: single atoms"] += 1
                    if (v, a, r) == (5, 2, 3):
                        part.sample(case)
        return part
    if u[0] == "calls-more":
        tc = u[1]
        part.max_depth = 11
        for shape in ("a|b", "a,b"):
            for ix in tc:
                for jx in tc:
                    node()
                    case = {"rels": shape_rels(shape, [atom(C, ix), atom(C, jx)]), "calls": 1}
                    _do(part, case)
                    part.extra["calling conventions: pairs"] += 1
        for _name, atoms in sweep_plan():
            for a in atoms:
                node()
                case = {"rels": [[a]], "calls": 1}
                _do(part, case)
                part.extra["calling conventions: sweep atoms"] += 1
        part.sample(case)
        return part
    if u[0] == "mixin-ctor-atoms":
        _, n, q = u
        part.max_depth = 6
        for v in range(RADIX[2]):
            for a in range(RADIX[3]):
                for r in range(RADIX[4]):
                    node()
                    k = ((((n * RADIX[1] + q) * RADIX[2] + v) * RADIX[3] + a) * RADIX[4] + r) * 11 + seed
                    c, f, acc, ctor = MIXIN_CTOR_COMBOS[k % len(MIXIN_CTOR_COMBOS)]
                    case = {"rels": [[atom(C, (n, q, v, a, r))]], "mixin": [c, f, acc, ctor]}
                    _do(part, case)
                    part.extra["at .relations, paragraph built another way: single atoms"] += 1
                    if (v, a, r) == (5, 2, 3):
                        part.sample(case)
        return part
    if u[0] == "mixin-ctor-all":
        cname = u[1]
        part.max_depth = 20
        idx = all_indexes()
        picks = [idx[len(idx) // 3], idx[-1]]
        abc = dict((x, atom(C, idx[(len(idx) * (j + 2)) // 5])) for j, x in enumerate("abc"))
        structures = [[[atom(C, ix)]] for ix in picks] + [letters_rels(sh, abc) for sh in ("a|b,c", "a,b,a")]
        for rels in structures:
            for fi in range(len(MIXIN_FIELDS[cname])):
                for ctor in MIXIN_CTORS[1:]:
                    node()
                    case = {"rels": rels, "mixin": [cname, fi, "subscript", ctor]}
                    _do(part, case)
                    part.extra["at .relations, paragraph built another way: every class x field x way"] += 1
        part.sample(case)
        return part
    if u[0] == "alias":
        _, n, q = u
        part.max_depth = 6
        for v in range(RADIX[2]):
            for a in range(RADIX[3]):
                for r in range(RADIX[4]):
                    node()
                    case = {"rels": [[atom(C, (n, q, v, a, r))]], "alias": 1}
                    _do(part, case)
                    part.extra["aliasing: single atoms"] += 1
                    if (v, a, r) == (5, 2, 3):
                        part.sample(case)
        return part
    if u[0] == "alias-pairs":
        _, i, tc = u
        a1 = atom(C, tc[i])
        part.max_depth = 11
        for shape in ("a|b", "a,b"):
            for ix in tc:
                node()
                case = {"rels": shape_rels(shape, [a1, atom(C, ix)]), "alias": 1}
                _do(part, case)
                part.extra["aliasing: pairs"] += 1
        if i % 4 == 0:
            part.sample(case)
        return part
    if u[0] == "keys":
        _, n, q = u
        part.max_depth = 6
        for v in range(RADIX[2]):
            for a in range(RADIX[3]):
                for r in range(RADIX[4]):
                    at = atom(C, (n, q, v, a, r))
                    for kl in key_lists(at):
                        node()
                        case = {"rels": [[at]], "keys": [kl]}
                        _do(part, case)
                        part.extra["key orders: single atoms x named orders"] += 1
                    if (v, a, r) == (5, 2, 3):
                        part.sample(case)
        return part
    if u[0] == "keys-perm":
        _, ii, pc = u
        pc = _core(pc)
        part.max_depth = 6
        for i in _first_indexes(ii):
            at = atom(C, pc[i])
            for kl in perm_key_lists(at):
                node()
                case = {"rels": [[at]], "keys": [kl]}
                _do(part, case)
                part.extra["key orders: pair-core atoms x remaining permutations"] += 1
            if i % 16 == 0:
                part.sample(case)
        return part
    if u[0] == "keys-pairs":
        _, i, tc = u
        a1 = atom(C, tc[i])
        part.max_depth = 12
        for shape in ("a|b", "a,b"):
            for ix in tc:
                a2 = atom(C, ix)
                for kk in pair_key_lists(a1, a2):
                    node()
                    case = {"rels": shape_rels(shape, [a1, a2]), "keys": kk}
                    _do(part, case)
                    part.extra["key orders: pairs"] += 1
        if i % 4 == 0:
            part.sample(case)
        return part
    if u[0] == "repeat":
        _, ii, pc, tc = u
        pc = _core(pc)
        tcs = set(tuple(x) for x in tc)
        part.max_depth = 20
        for i in _first_indexes(ii):
            abc = dict((x, atom(C, pc[(i + j) % len(pc)])) for j, x in enumerate("abc"))
            in_tc = dict((x, tuple(pc[(i + j) % len(pc)]) in tcs) for j, x in enumerate("abc"))
            for shape in REPEAT_SHAPES:
                used = [x for x in shape if x in "abc"]
                for share in (0, 1):
                    if not share and len(used) == 2:
                        continue        # (a, a): in the pair space
                    if not share and len(used) == 3 and all(in_tc[x] for x in used):
                        continue        # three atoms of the triple core: in the triple space (all four shapes are)
                    node()
                    case = {"rels": letters_rels(shape, abc)}
                    if share:
                        case["share"] = 1
                    bad, outcome, ev = exec_case(case)
                    part.traces += 1
                    part.evaluations += ev
                    part.outcomes["repeat %s%s: %s" % (shape, ", shared objects" if share else "",
                                                       "VIOLATION" if bad else "round trip ok")] += 1
                    if nontrivial(case):
                        part.nontrivial += 1
                    for sig, exp, obs in bad:
                        part.violation(sig, case, exp, obs)
                    part.extra["repetitions"] += 1
            if i % 16 == 0:
                part.sample(case)
        return part
    if u[0] == "sweep":
        atoms = dict(sweep_plan())[u[1]]
        part.max_depth = 5
        for a in atoms:
            node()
            case = {"rels": [[a]]}
            bad, outcome, ev = exec_case(case)
            part.traces += 1
            part.evaluations += ev
            part.outcomes["sweep/%s: %s" % (u[1], outcome)] += 1
            part.nontrivial += 1
            for sig, exp, obs in bad:
                part.violation(sig, case, exp, obs)
            part.extra["sweep atoms"] += 1
        part.sample({"rels": [[atoms[0]]]})
        return part
    if u[0] == "pairs":
        _, i, pc = u
        pc = _core(pc)
        a1 = atom(C, pc[i])
        node()
        part.max_depth = 10
        for shape in ("a|b", "a,b"):
            node()
            for ix in pc:
                node()
                case = {"rels": shape_rels(shape, [a1, atom(C, ix)])}
                _do(part, case)
                part.extra["pairs"] += 1
        if i % 16 == 0:
            part.sample(case)
        return part
    _, i, tc = u
    a1 = atom(C, tc[i])
    node()
    part.max_depth = 15
    for jx in tc:
        node()
        for kx in tc:
            node()
            for shape in TRIPLE_SHAPES:
                node()
                case = {"rels": shape_rels(shape, [a1, atom(C, jx), atom(C, kx)])}
                _do(part, case)
                part.extra["triples"] += 1
    if i % 4 == 0:
        part.sample(case)
    return part


def replay(case):
    return exec_case(case)[0]


def repro_py(case):
    if case.get("ladder"):
        return "from mc.props import c13\ncase = %r\nassert c13.replay(case) == [], c13.replay(case)\n" % (case,)
    if case.get("alias"):
        return ("from debian.deb822 import PkgRelation as R\n"
                "case = %r\n"
                "def build():\n"
                "    return [[{'name': n, 'archqual': q, 'version': None if v is None else tuple(v),\n"
                "              'arch': None if a is None else [R.ArchRestriction(e, x) for e, x in a],\n"
                "              'restrictions': None if r is None else [[R.BuildRestriction(e, p) for e, p in g] for g in r]}\n"
                "             for n, q, v, a, r in group] for group in case]\n"
                "rels, pristine = build(), build()\n"
                "s = R.str(rels)\n"
                "p1, p2 = R.parse_relations(s), R.parse_relations(s)\n"
                "assert p1 == pristine and p2 == pristine\n"
                "for g in p1:                       # the owner of p1 edits it in place\n"
                "    for d in g:\n"
                "        if d['arch'] is not None:\n"
                "            d['arch'].append(R.ArchRestriction(True, 'edited'))\n"
                "        if d['restrictions'] is not None:\n"
                "            d['restrictions'][0].append(R.BuildRestriction(False, 'edited'))\n"
                "            d['restrictions'].append([R.BuildRestriction(True, 'edited')])\n"
                "        d['version'] = ('<<', '0~edited')\n"
                "    g.append(dict(g[0], name='edited'))\n"
                "p1.append([dict(p1[0][0], name='edited')])\n"
                "assert p2 == pristine, ('two results of parse_relations share state', p2)\n"
                "assert R.str(rels) == s and rels == pristine\n"
                "back = R.parse_relations(R.str(rels))\n"
                "assert back == pristine, (s, back)\n" % (case["rels"],))
    if case.get("keys"):
        return ("import warnings\nfrom debian.deb822 import PkgRelation as R\n"
                "case, keys = %r, %r\n"
                "KEYS = ('name', 'archqual', 'version', 'arch', 'restrictions')\n"
                "def build(keys):      # keys: per atom, the order in which the dict's keys are inserted\n"
                "    out, k = [], 0\n"
                "    for group in case:\n"
                "        out.append([])\n"
                "        for n, q, v, a, r in group:\n"
                "            full = {'name': n, 'archqual': q, 'version': None if v is None else tuple(v),\n"
                "                    'arch': None if a is None else [R.ArchRestriction(e, x) for e, x in a],\n"
                "                    'restrictions': None if r is None else [[R.BuildRestriction(e, p) for e, p in g] for g in r]}\n"
                "            out[-1].append(dict((x, full[x]) for x in keys[k %% len(keys)]))   # keys left out are None in full\n"
                "            k += 1\n"
                "    return out\n"
                "canon, rels = build([KEYS]), build(keys)\n"
                "s = R.str(rels)\n"
                "assert s == R.str(canon), (s, R.str(canon))\n"
                "with warnings.catch_warnings(record=True) as w:\n"
                "    warnings.simplefilter('always')\n"
                "    back = R.parse_relations(s)\n"
                "assert not w, [str(x.message) for x in w]\n"
                "assert back == canon, (s, back)\n"
                "assert R.str(back) == s, R.str(back)\n" % (case["rels"], case["keys"]))
    return ("import warnings\nfrom debian.deb822 import PkgRelation as R\n"
            "case = %r\n"
            "rels = [[{'name': n, 'archqual': q, 'version': None if v is None else tuple(v),\n"
            "          'arch': None if a is None else [R.ArchRestriction(e, x) for e, x in a],\n"
            "          'restrictions': None if r is None else [[R.BuildRestriction(e, p) for e, p in g] for g in r]}\n"
            "         for n, q, v, a, r in group] for group in case]\n" % (case["rels"],)
            + ("memo = {}          # equal atoms / groups are one shared object\n"
               "rels = [[memo.setdefault(repr(d), d) for d in g] for g in rels]\n"
               "rels = [memo.setdefault(repr(g), g) for g in rels]\n" if case.get("share") else "") +
            "s = R.str(rels)\n"
            "with warnings.catch_warnings(record=True) as w:\n"
            "    warnings.simplefilter('always')\n"
            "    back = R.parse_relations(s)\n"
            "assert not w, [str(x.message) for x in w]\n"
            "assert back == rels, (s, back)\n"
            "assert R.str(back) == s, R.str(back)\n")
