"""C12 - structured multi-line fields round-trip as records and can always be dumped.

Engine B over two families of inputs (S, R) and Engine A over edit histories (H), for the six class configurations Dsc, Changes, BuildInfo, PdiffIndex,
Release(apt-ftparchive), Release(dak):

  S  "subsets":  every subset of the class's structured fields present (the others absent), each present field
                 carrying 1, 2 or 3 records (tokens/sizes rotate deterministically with field and record index);
  R  "records":  one structured field present, its record list enumerated exhaustively (all single records; all
                 pairs / triples over a reduced record alphabet that keeps every size-width combination);
  H  "histories": dump - edit - dump on ONE object, for every structured field of every class configuration: the field
                 (two initial record lists, thorough: three) and its table neighbour are present; the object is built from
                 records or parsed from text (thorough: also column-aligned text and text with the first record on the header line) and dumped; then every sequence of up
                 to 2 (thorough: 4) applicable edits is applied,
                 with a dump after each edit: in place on the record list (append a record whose size is longer than all
                 present, delete the record with the longest size, set a record's 'size' longer / shorter, extend by two
                 records, replace a record), re-assign the field, delete the field, switch Release.size_field_behavior,
                 and append to / delete the neighbour field.  The last dump of every history must re-parse to the edited
                 records, be aligned to the width computed from the records held NOW (and the behaviour set NOW), and a
                 further dump must give the same text and leave the records as edited.

  F  "forms":    S/R/H hand the text to the constructor as one str.  The constructor documents "a string, or any object that
                 returns a line of input each time, normally a file" and an encoding "when parsing strings": for every class
                 configuration x 3 field subsets (one field, all, a scattered few) x 2 record counts the same text is handed
                 over as str, UTF-8 bytes, list / tuple of lines with and without their newlines, list of bytes lines,
                 generator of str / of bytes lines, io.StringIO, io.BytesIO, a text-mode file object (TextIOWrapper, has
                 .encoding), the sequence= keyword (str, list, generator, BytesIO), bytes / BytesIO / bytes lines in another 8-bit encoding with encoding=,
                 and as the first of two paragraphs of cls.iter_paragraphs(str / lines / BytesIO).  Each form goes through
                 the same executor and oracle as S; on top, its dump() must be the text the str form dumps, and dump(fd) to a
                 binary and to a text file object must write exactly that text.

  B  "other routes": for every class configuration (and Sources, the sub-class of Dsc) x 3 field subsets x 1-3 records per
                 field: the records reach the paragraph another way (update, setdefault, records as Deb822Dict objects, the
                 record list of another parsed paragraph, integer sizes, assigned twice, after a dump refused for a newline
                 in a component), the text is read with fields= (constructor by keyword / positionally, iter_paragraphs; every
                 structured field is in the text, the subset is what fields= names - also a direction of S for every
                 subset), Release.size_field_behavior is set by the method, then refused values are tried, after the other value,
                 before the fields exist.  Each goes through the executor and oracle of S; on top the dump is taken the
                 other ways (dump() again, str, bytes, dump(fd) with keywords, the restricted wrapper; a text that differs
                 from dump() is held to the statement on its own), get_as_string(field) in three spellings must be the
                 field's block of the dump, and the records are read the other ways (get, other spellings of the name,
                 items / values of the paragraph; items / get / values / dict() of a record).

Every S/R input is run in several directions: built through the API (assign a list of dicts / a single mapping) or
parsed from text (tight, column-aligned, first record on the header line, single-line, and for pdiff the natural
form with single-line *-Current fields).

Oracle (written from the statement and the class tables copied below, never from cls._multivalued_fields):
parsed records == generated records; dump() does not raise; cls(dump()) has the same records in the same order;
for Release/PdiffIndex each record is written as hash + " " + size.rjust(W) + " " + rest with W = 16
(apt-ftparchive) or the longest size in that field (dak, pdiff).
"""
import io
import warnings
import itertools

from .. import core

ID = "C12"
LEVEL = "model_checking"
RULE = ("inputs = (class configuration, set of structured fields present, record list per field, direction) walked as a "
        "choice tree class -> subset/field -> record list -> direction (states = nodes, transitions = edges, traces = "
        "paragraphs built or parsed, dumped and re-parsed on the real classes); non-trivial = cases in which some but not "
        "all structured fields of the class are present, or a field holds sizes of different widths.  Family H adds edit "
        "histories on one object (Engine A): a state is the sequence of edits applied since construction (mirrored on a "
        "plain-list model of the records), a transition one edit followed by dump(), a trace one complete history "
        "(construct, dump, edit, dump, ... , dump twice) replayed from scratch on the real class; every prefix of a history "
        "is a case of its own, so only the last dump of a history is compared; non-trivial = at least one edit.  Family F: "
        "one more choice below (class, subset, record count): the form in which the text reaches the constructor; one state / "
        "transition / trace per (paragraph, form), non-trivial by the S rule.  Family B: one more choice below (class, "
        "subset, record count): the route by which the records / the text / the behaviour reach the paragraph; one state / "
        "transition / trace per (paragraph, route), followed by the other dump and read routes (evaluations); non-trivial "
        "by the S rule")
BUDGET = {"quick": 240, "thorough": 3000}

# ---- the documented sub-field names (display spelling of the field, sub-field names in line order)
_CK = lambda h: [h, "size", "name"]
TABLE = {
    "Dsc": [("Files", _CK("md5sum")), ("Checksums-Sha1", _CK("sha1")), ("Checksums-Sha256", _CK("sha256")),
            ("Checksums-Sha512", _CK("sha512"))],
    "Changes": [("Files", ["md5sum", "size", "section", "priority", "name"]), ("Checksums-Sha1", _CK("sha1")),
                ("Checksums-Sha256", _CK("sha256")), ("Checksums-Sha512", _CK("sha512"))],
    "BuildInfo": [("Checksums-Md5", _CK("md5")), ("Checksums-Sha1", _CK("sha1")), ("Checksums-Sha256", _CK("sha256")),
                  ("Checksums-Sha512", _CK("sha512"))],
    "Release": [("MD5Sum", _CK("md5sum")), ("SHA1", _CK("sha1")), ("SHA256", _CK("sha256")), ("SHA512", _CK("sha512"))],
    "PdiffIndex": [],
}
_ROLES = [("Current", None), ("History", "date"), ("Patches", "date"), ("Download", "filename"),
          ("X-Unmerged-History", "date"), ("X-Unmerged-Patches", "date"), ("X-Unmerged-Download", "filename")]
for _h in ("SHA1", "SHA256"):
    for _role, _third in _ROLES:
        if _role.startswith("X-Unmerged-"):
            _name = "X-Unmerged-%s-%s" % (_h, _role[len("X-Unmerged-"):])
        else:
            _name = "%s-%s" % (_h, _role)
        TABLE["PdiffIndex"].append((_name, [_h, "size"] + ([_third] if _third else [])))

TABLE["Sources"] = TABLE["Dsc"]          # a Sources paragraph is a Dsc paragraph (sub-class, same structured fields): family B only

CONFIGS = [("Dsc", None), ("Changes", None), ("BuildInfo", None), ("PdiffIndex", None),
           ("Release", "apt-ftparchive"), ("Release", "dak")]
FIXED_WIDTH = {("Release", "apt-ftparchive"): 16, ("Release", "dak"): "longest", ("PdiffIndex", None): "longest"}

DIRS_ANY = ["assign-list", "text-multi"]
DIRS_ONE = ["assign-mapping", "text-single"]           # a single record in single-line form
DIRS_R = ["assign-list", "text-multi", "text-aligned", "text-mixed"]


def cfg_name(cname, beh):
    return cname + ({"apt-ftparchive": "-aptf", "dak": "-dak", None: ""}[beh])


def bounds(tier):
    return {"class_configurations": [cfg_name(*c) for c in CONFIGS],
            "S_subsets": {"Dsc/Changes/BuildInfo/Release": "all 2^4 subsets",
                          "PdiffIndex": "all 2^14 subsets" if tier == "thorough" else
                          "all subsets of size <= 3 and >= 11 (covers every present/absent combination of any 3 fields) + "
                          "every product {SHA1,SHA256}-subset x role-subset (%d subsets in all)" % len(pdiff_subsets("quick"))},
            "S_records_per_field": "1, 2, 3 (rotating tokens/sizes)" if tier == "quick" else
                                   "1, 2, 3 in two rotations of the tokens/sizes, and 4 (7 record lists per field and subset)",
            "S_directions": DIRS_ANY + ["text-natural (pdiff: *-Current single-line)"] + DIRS_ONE,
            "R_record_lists": "length 1: all records over 4 tokens x 3 sizes per sub-field; length 2: all ordered pairs over %s; "
                              "length 3: all triples over %s" % (
                                  ("12 records (4 tokens x 3 sizes)", "6 records (2 tokens x 3 sizes)") if tier == "quick" else
                                  ("24 records (4 x 3 x 2: independent hash/rest tokens)", "the same 24 records; length 4: all "
                                   "quadruples over 6 records (2 tokens x 3 sizes)")),
            "R_odd_sizes": "5 record lists per size spelling in %r (alone, before / after a 2-digit size, between two records, twice): text length and numeric value "
                           "disagree or the token is no decimal number" % (ODD_SIZES,),
            "R_directions": DIRS_R + DIRS_ONE,
            "H_histories": {"edited_field": "every structured field of every class configuration (34), its table neighbour also present",
                            "initial_records": "sizes of (1, 2) digits; of (17, 1) digits" + ("; of (2, 2, 1) digits" if tier == "thorough" else ""),
                            "directions": H_DIRS[tier],
                            "edits": H_OPS, "depth": "all sequences of 0..%d applicable edits" % H_DEPTH[tier],
                            "checked": "last dump of each history: re-parse == edited records, absent fields absent, "
                                       "alignment from the current records and behaviour, second dump identical, object's "
                                       "records as edited"},
            "F_input_forms": {"forms": FORMS, "paragraphs": "each class configuration x field subsets {first field; all; "
                              "fields 2 and 4 (pdiff: SHA1-Current + SHA256-Patches + X-Unmerged-SHA256-Download)} x 2 or 3 records "
                              "per field (pdiff *-Current: single-line)",
                              "checked": "as S (records, dump, re-parse, alignment) + dump() identical to the str form's + "
                                         "dump(BytesIO) / dump(StringIO, text_mode=True) write that text",
                              "other_encoding": "first of %s that can write the tokens" % OTHER_ENCODINGS},
            "I_two_objects": {"plans": len(i_plans()) * 2, "classes": ["%s + %s" % c for c in I_CLASSES],
                              "behaviours": "each Release left alone / dak / apt-ftparchive", "orders": I_ORDERS,
                              "directions": ["assign-list", "text-multi"],
                              "checked": "three dumps (object A, B, A resp. B, A, B), each as for that object alone"},
            "B_other_routes": {"class_configurations": [cfg_name(*c) for c in B_CONFIGS],
                               "paragraphs": "field subsets {first field; all; fields 2 and 4 (pdiff: SHA1-History; all 14; SHA1-Current "
                                             "+ SHA256-Patches + X-Unmerged-SHA256-Download)} x 1, 2, 3 records per field",
                               "build_routes": B_BUILD, "parse_routes": B_PARSE,
                               "behavior_routes": "Release configurations x {assign-list, text-multi} x %s" % B_SET_BEH,
                               "dump_routes": DUMP_ROUTES, "get_as_string": "stored, lower-case and upper-case spelling of the field name",
                               "read_routes": READ_ROUTES, "record_read_routes (parsed paragraphs)": RECORD_READ_ROUTES,
                               "cases": sum(len(b_cases(c, b, 0)) for c, b in B_CONFIGS)},
            "S_filtered": "every non-empty subset with 2 records per field is also read from a text that holds every structured "
                          "field of the class, with fields= naming the subset",
            "tokens": "a, bb, x/y.z, e-acute (seed rotates representatives)", "sizes": "1, 22, 17 digits",
            "L_ladders": {
                "what": "beyond 3 records / the class's own fields: generated from a description stored in the case, run through "
                        "the executor and oracle of S (text-multi cases as input form 'str' of F: dump(fd) binary / text must "
                        "write the text of dump())",
                "fields": "every class configuration: its first structured field (pdiff index: SHA1-Current and SHA1-History)",
                "records_per_field": {
                    "n": "every n in 1..40 and %s" % (L_BIG + (L_BIG_THOROUGH if tier != "quick" else [])),
                    "not_in_quick": L_BIG_THOROUGH if tier == "quick" else [],
                    "records": "tokens rotate with the record index, sizes of 1-3 digits; n divisible by 3: the table neighbour "
                               "present too (2 records)",
                    "size_tokens": "n <= 40: one record with a size of %s digits, first / middle / last rotating with n, "
                                   "assigned and parsed; larger n: a size of 17 digits first (even n) or 18 digits last (odd n)" % L_LONG_SIZES,
                    "directions": "n <= 40: assign-list, text-multi, text-aligned, text-mixed; larger: assign-list (plain), "
                                  "text-multi (long size)"},
                "plain_fields_in_front": {"m": "every m in 1..40 and %s plain fields between Origin and the structured fields" % L_EXTRA_BIG,
                                          "paragraphs": "2 records + neighbour field; 3 records with a 17-digit size in the middle",
                                          "directions": ["assign-list", "text-multi"]},
                "name_token_size": {
                    "L": L_NAME_SIZES + (L_NAME_SIZES_THOROUGH if tier != "quick" else []),
                    "not_in_quick": L_NAME_SIZES_THOROUGH if tier == "quick" else [],
                    "token": "the name (pdiff index: the hash of SHA1-History... the last column; first column for two-column "
                             "fields) is L characters of one letter, alone, or with one of %s inside" % sorted(L_TOKENS),
                    "places": "offsets in the record's line of the dump: 40, L-4, and around every block size of %s inside: "
                              "b-1, b, b+1, b-3 (L >= 65535: the last four of these)" % L_BLOCKS,
                    "two-byte": "read from UTF-8 bytes / BytesIO, so that the character's two bytes lie on both sides of the boundary"}}}


def assumptions():
    return ["the documented sub-field names are the class tables of deb822.py at design time (copied into the check)",
            "tokens are non-empty and whitespace-free; record lists are non-empty (empty lists are outside the statement)",
            "a paragraph is 'built' by cls({plain fields}) followed by item assignment of a list of dicts (or one mapping)",
            "CARVE-OUT (new): Release with size_field_behavior='dak' and a structured field in single-line form "
            "(Release('MD5Sum: aaa 12 x\\n') or r['SHA1'] = {one mapping}) raises TypeError in dump() on both trees; the "
            "statement only promises dumping for *lists* of records and for *absent* fields, and Release checksum fields are "
            "multi-line by format, so the dump demand is not made there (parsing is still checked; counted in extra)",
            "family H: record lists are edited the way the class documents ('mutable lists'): list.append/extend/del/[i]=, "
            "record['size']=, item assignment and deletion of the field, all with plain dicts; lists are never emptied (only "
            "'del-longest' shortens, and only when 2+ records remain); 'the longest size present' and size_field_behavior are "
            "read at the time of each dump; all H fields are in list (multi-line) form, so the dak single-line carve-out is "
            "not touched by H",
            "re-parsed records are compared as records: a single-line field re-read as one mapping counts as the list of that one record",
            "seed rotates token representatives and the spelling (case) of the field names; both are equivalent for a "
            "case-insensitive, whitespace-splitting implementation",
            "family B: a Sources paragraph is a Dsc paragraph (sub-class with the same table), held to the Dsc clauses; "
            "integer sizes are written with str() by the class (get_as_string), so a record built with size 12 must re-parse "
            "to size '12'; records handed in as plain dicts are compared without regard to the key order they were given "
            "(the line order comes from the class table); a dump refused with ValueError for a newline inside a component "
            "is the documented guard - after the component is repaired the dump must be right; fields= is compared with "
            "the spelling the text uses (the filter is case-sensitive by construction); size_field_behavior values other "
            "than the two documented ones are refused with ValueError and must leave the behaviour as it was",
            "family F: the forms are the input kinds the Deb822 constructor documents (str, bytes, any iterable of str or "
            "bytes lines, file objects; encoding= for bytes input).  'lines without newline' are the text split at '\\n'.  With "
            "encoding=E the bytes are the text encoded in E and dump(fd) in binary mode must write the text encoded in E (the "
            "documented default of dump: 'the encoding the object was initialized with').  NOT a form of the check: a mapping "
            "that already holds record lists - cls(other_paragraph), paragraph.copy() and cls({'Files': [records]}) raise "
            "AttributeError ('list' object has no attribute 'splitlines') for every class of this property on the unchanged "
            "library, because _multivalued.__init__ expects the raw string value of each structured field; the statement "
            "says nothing about copying a paragraph, so this is reported to the maintainers of the check, not demanded",
            "L (ladders): tokens stay non-empty and whitespace-free (a lone CR or a blank inside a token is outside the "
            "statement); a ':' or '#' inside a long token is whitespace-free text; sizes of 15 / 16 / 17 / 18 digits bracket "
            "the documented width 16: with apt-ftparchive a longer size is written unpadded, with dak / pdiff the column is "
            "as wide as the longest size present anywhere in the field (first, middle or last record, record 1001 too); the "
            "plain X-Extra-<i> fields are ordinary fields of the paragraph, their own round trip belongs to C02"]


# ------------------------------------------------------------------------------------------------ symbols

def symbols(seed):
    toks = [core.rep(seed, ["a", "q", "Z", "7"]), core.rep(seed, ["bb", "qq", "ZZ", "77"]),
            core.rep(seed, ["x/y.z", "x-y_z", "x+y~z", "x.y/z"]), core.rep(seed, ["\u00e9", "\u00fc", "\u00df", "\u65e5"])]
    sizes = core.rep(seed, [["1", "22", "12345678901234567"], ["7", "40", "98765432109876543"],
                            ["0", "99", "10000000000000000"], ["5", "31", "55555555555555555"]])
    return toks, sizes


def spell(name, seed):
    return core.rep(seed, [name, name.lower(), name.upper(), name])


def rotating_records(nsub, fi, nrec, seed):
    toks, sizes = symbols(seed)
    recs = []
    for r in range(nrec):
        rec = []
        for j in range(nsub):
            rec.append(sizes[(r + fi) % 3] if j == 1 else toks[(r + j + fi) % 4])
        recs.append(rec)
    return recs


def pdiff_subsets(tier):
    n = 14
    allidx = range(n)
    if tier == "thorough":
        out = []
        for k in range(n + 1):
            out += [list(c) for c in itertools.combinations(allidx, k)]
        return out
    chosen = set()
    for k in list(range(0, 4)) + list(range(11, 15)):
        chosen.update(itertools.combinations(allidx, k))
    for hs in ([0], [1], [0, 1]):
        for k in range(8):
            for roles in itertools.combinations(range(7), k):
                chosen.add(tuple(sorted(h * 7 + r for h in hs for r in roles)))
    return [list(c) for c in sorted(chosen, key=lambda c: (len(c), c))]


def subsets_for(cname, tier):
    if cname == "PdiffIndex":
        return pdiff_subsets(tier)
    out = []
    for k in range(5):
        out += [list(c) for c in itertools.combinations(range(4), k)]
    return out


ODD_SIZES = ["007", "0123", "+12", "1_0", "0x10", "\u0661\u0662\u0663", "abc", "-1", "1e3", "00", "0000000000000000022"]


def record_lists(nsub, tier, seed):
    """all record lists of family R for a field with nsub sub-fields, simplest first"""
    toks, sizes = symbols(seed)
    out = []
    for combo in itertools.product(*[(sizes if j == 1 else toks) for j in range(nsub)]):
        out.append([list(combo)])
    diag = [[(s if j == 1 else t) for j in range(nsub)] for t in toks for s in sizes]
    small = [[(s if j == 1 else t) for j in range(nsub)] for t in (toks[0], toks[3]) for s in sizes]
    if tier == "thorough":
        wide = [[(s if j == 1 else (t if j == 0 else u)) for j in range(nsub)]
                for t in toks for s in sizes for u in (toks[1], toks[2])]
        pairs, triples = wide, wide
    else:
        pairs, triples = diag, small
    out += [[a, b] for a in pairs for b in pairs]
    out += [[a, b, c] for a in triples for b in triples for c in triples]
    if tier == "thorough":
        out += [[a, b, c, d] for a in small for b in small for c in small for d in small]
    if nsub >= 2:
        # sizes are white-space-free tokens like any other: spellings whose text length and numeric value disagree (or
        # that are no decimal number at all) next to plain ones - the column is as wide as the longest size *text*
        for o in ODD_SIZES:
            a = [(o if j == 1 else toks[0]) for j in range(nsub)]
            out += [[a], [a, small[1]], [small[1], a], [small[4], a, small[0]], [a, a]]
    if nsub == 3:
        # a record whose three white-space-free tokens spell a line of another layer of the format (clearsign armor)
        for words in (["-----BEGIN", "PGP", "SIGNATURE-----"], ["-----BEGIN", "PGP", "MESSAGE-----"], ["-----END", "PGP", "SIGNATURE-----"]):
            out += [[words], [small[0], words, small[1]], [words, small[0], small[1]]]
    return out


def s_lists(tier):
    """family S: (records per field, rotation shift of the tokens/sizes) of the record lists every subset is run with"""
    if tier == "quick":
        return [(1, 0), (2, 0), (3, 0)]
    return [(1, 0), (2, 0), (3, 0), (1, 2), (2, 2), (3, 2), (4, 1)]


# ------------------------------------------------------------------------------------------------ units

S_CHUNK = 48


def units(tier, seed):
    out = []
    for cname, beh in CONFIGS:
        subs = subsets_for(cname, tier)
        for i in range(0, len(subs), S_CHUNK):
            out.append({"family": "S", "cls": cname, "beh": beh, "subsets": subs[i:i + S_CHUNK]})
    for cname, beh in CONFIGS:
        for fi in range(len(TABLE[cname])):
            for length in ((1, 2, 3) if tier == "quick" else (1, 2, 3, 4)):
                out.append({"family": "R", "cls": cname, "beh": beh, "field": fi, "length": length})
    for cname, beh in CONFIGS:
        for fi in range(len(TABLE[cname])):
            if tier == "quick":
                out.append({"family": "H", "cls": cname, "beh": beh, "field": fi})
            else:       # one unit per (initial record list, direction): a depth-4 tree is minutes of work
                for init in range(H_INITIALS[tier]):
                    for d in H_DIRS[tier]:
                        out.append({"family": "H", "cls": cname, "beh": beh, "field": fi, "init": init, "dir": d})
    for cname, beh in CONFIGS:
        out.append({"family": "F", "cls": cname, "beh": beh})
    out.append({"family": "I", "cls": "Release", "beh": None})
    for cname, beh in B_CONFIGS:
        out.append({"family": "B", "cls": cname, "beh": beh})
    out += l_units(tier)
    return out


def unit_cost(u, tier):
    if u["family"] == "L":
        return {"records": 40, "extra": 10, "name-size": 1}[u["what"]] * (u["arg"] + 50)
    if u["family"] == "S":
        return sum(len(s) + 1 for s in u["subsets"]) * 8 * len(s_lists(tier)) // 3
    if u["family"] == "H":
        return (1 if "init" in u else 4) * (11 ** H_DEPTH[tier]) * 6
    if u["family"] == "F":
        return 6 * len(FORMS) * 40
    if u["family"] == "I":
        return len(i_plans()) * 2 * 40
    if u["family"] == "B":
        return 9 * (len(B_BUILD) + len(B_PARSE) + 8) * (140 if u["cls"] == "PdiffIndex" else 60)
    nsub = len(TABLE[u["cls"]][u["field"]][1])
    return {1: 3 * 4 ** (nsub - 1), 2: 144 if tier == "quick" else 576, 3: 216 if tier == "quick" else 13824,
            4: 1296}[u["length"]] * 5


# ------------------------------------------------------------------------------------------------ execution

def _cls(cname):
    from debian import deb822
    return getattr(deb822, cname)


def _exc(e):
    return "%s: %s" % (type(e).__name__, e)


def make_text(case):
    """the text of a parsed-direction case (written by the harness, never by the code under test)"""
    lines = ["Origin: x\n"]
    lines += ["X-Extra-%d: e%d\n" % (i, i) for i in range(case.get("extra", 0))]     # (ladders: more plain fields)
    d = case["dir"]
    for name, subs, recs in case["fields"]:
        single = d == "text-single" or (d == "text-natural" and len(subs) == 2)
        if single:
            assert len(recs) == 1
            lines.append("%s: %s\n" % (name, " ".join(recs[0])))
        elif d == "text-aligned":
            lines.append("%s:\n" % name)
            for r in recs:
                lines.append(" " + "  ".join(r[j].rjust(16) if j == 1 else r[j] for j in range(len(r))) + "\n")
        elif d == "text-mixed":
            lines.append("%s: %s\n" % (name, " ".join(recs[0])))
            for r in recs[1:]:
                lines.append(" " + " ".join(r) + "\n")
        else:
            lines.append("%s:\n" % name)
            for r in recs:
                lines.append(" " + " ".join(r) + "\n")
    lines.append("Label: y\n")
    return "".join(lines)


def is_single_form(case, subs, recs):
    d = case["dir"]
    if d in ("text-single", "assign-mapping"):
        return True
    if d == "text-natural" and len(subs) == 2:
        return True
    if d == "text-mixed" and len(recs) == 1:
        return True
    return False


def records_of(value):
    """observed value of a structured field -> (shape, list of records as lists of (name, value) pairs)"""
    if hasattr(value, "keys"):
        return "mapping", [[(k, value[k]) for k in value.keys()]]
    return "list", [[(k, r[k]) for k in r.keys()] for r in value]


def check_text(cname, beh, fields, single, text, pre=""):
    """What the statement says about a dumped paragraph `text` of class configuration (cname, beh) whose structured
    fields currently hold `fields` = [(name, sub-field names, records)]: it re-parses to the same records in the same
    order (4.) and, for Release / PdiffIndex, the size column is right-aligned to the documented width computed from these
    records (5.).  pre: inserted into the signatures (edit histories).  -> (list of (sig, expected, observed), evaluations)"""
    cfg = cfg_name(cname, beh)
    cls = _cls(cname)
    present = set(n.lower() for n, _s, _r in fields)
    want = dict((n, [list(zip(s, r)) for r in recs]) for n, s, recs in fields)
    bad = []
    evals = [0]
    # ---- 4. re-parse gives the same records in the same order
    try:
        p2 = cls(text)
    except Exception as e:
        return [("mv/%s/%sreparse/raises/%s" % (cfg, pre, type(e).__name__), "no exception", _exc(e) + " on " + repr(text))], 1
    for n, s, recs in fields:
        evals[0] += 1
        try:
            _shape, got = records_of(p2[n])
        except Exception as e:
            bad.append(("mv/%s/%sreparse/field-raises/%s" % (cfg, pre, type(e).__name__), want[n], _exc(e) + " in " + repr(text)))
            continue
        if got != want[n]:
            bad.append(("mv/%s/%sreparse/records" % (cfg, pre), want[n], "%r from %r" % (got, text)))
    for k, v in (("Origin", "x"), ("Label", "y")):
        try:
            if p2[k] != v:
                bad.append(("mv/%s/%sreparse/plain-field" % (cfg, pre), v, "%r from %r" % (p2[k], text)))
        except KeyError:
            bad.append(("mv/%s/%sreparse/plain-field" % (cfg, pre), v, "absent from %r" % text))
    for n, _s in TABLE[cname]:
        if n.lower() not in present and n in p2:
            bad.append(("mv/%s/%sreparse/phantom-field" % (cfg, pre), "%s absent" % n, "present in %r" % text))
    # ---- 5. the size column
    width = FIXED_WIDTH.get((cname, beh))
    if width is not None:
        lines = text.split("\n")
        for n, s, recs in fields:
            evals[0] += 1
            w = width if width != "longest" else max(len(r[1]) for r in recs)
            exp = [" ".join(r[j].rjust(w) if j == 1 else r[j] for j in range(len(r))) for r in recs]
            idx = [i for i, l in enumerate(lines) if l.partition(":")[0].lower() == n.lower() and not l.startswith(" ")]
            if len(idx) != 1:
                bad.append(("mv/%s/%salign/field-lines" % (cfg, pre), "one %s block" % n, text))
                continue
            head = lines[idx[0]].partition(":")[2]
            block = []
            for l in lines[idx[0] + 1:]:
                if not l.startswith(" "):
                    break
                block.append(l)
            if single[n] and not block:
                got = [head.lstrip(" ")]
                ok = head.startswith(" ") and got == exp
            else:
                got = block
                ok = head == "" and block == [" " + e for e in exp]
                exp = [" " + e for e in exp]
            if not ok:
                bad.append(("mv/%s/%salign" % (cfg, pre), exp, "%r (header rest %r)" % (got, head)))
    return bad, evals[0]


# ---- family F: the documented ways of handing text to the constructor ("a string, or any object that returns a line of
# input each time, normally a file"; "encoding: when parsing strings, interpret them in this encoding")

FORMS = ["str", "bytes", "lines-nl", "lines-nonl", "bytes-lines", "tuple-lines", "generator", "generator-bytes", "StringIO",
         "BytesIO", "textfile", "kw-sequence", "kw-sequence-lines", "kw-sequence-generator", "kw-sequence-BytesIO",
         "bytes-other-encoding", "BytesIO-other-encoding",
         "bytes-lines-other-encoding", "iter_paragraphs", "iter_paragraphs-lines", "iter_paragraphs-BytesIO"]
OTHER_ENCODINGS = ["latin-1", "iso-8859-5", "euc-jp"]
# bytes in which one line ahead of the structured fields is in a legacy 8-bit encoding and everything else UTF-8: every
# line is decoded on its own (lib/debian/tests/test_deb822.py reads such files)
MIXED_FORMS = ["mixed-bytes", "mixed-bytes-lines", "mixed-BytesIO"]
MIXED_LINE = "Maintainer: Sim\xf3n Garc\xeda <s@example.org>\n".encode("latin-1")
FORMS += MIXED_FORMS


def other_encoding(text):
    """a non-UTF-8 encoding that can write the text (the token representatives are Latin, Cyrillic or CJK letters)"""
    for enc in OTHER_ENCODINGS:
        try:
            text.encode(enc)
            return enc
        except UnicodeEncodeError:
            pass
    raise AssertionError("no 8-bit encoding for %r" % (text,))


def _generate(lines):
    for line in lines:
        yield line


def construct(cls, text, form):
    """cls(...) of the harness-written text, handed over in the given form (None / 'str': the text itself)"""
    if form is None or form == "str":
        return cls(text)
    if form == "bytes":
        return cls(text.encode("utf-8"))
    if form == "lines-nl":
        return cls(text.splitlines(True))
    if form == "lines-nonl":
        return cls(text.split("\n")[:-1])
    if form == "bytes-lines":
        return cls(text.encode("utf-8").splitlines(True))
    if form == "tuple-lines":
        return cls(tuple(text.splitlines(True)))
    if form == "generator":
        return cls(_generate(text.splitlines(True)))
    if form == "generator-bytes":
        return cls(_generate(text.encode("utf-8").split(b"\n")[:-1]))
    if form == "StringIO":
        return cls(io.StringIO(text))
    if form == "BytesIO":
        return cls(io.BytesIO(text.encode("utf-8")))
    if form == "textfile":
        return cls(io.TextIOWrapper(io.BytesIO(text.encode("utf-8")), encoding="utf-8"))
    if form == "kw-sequence":
        return cls(sequence=text)
    if form == "kw-sequence-lines":
        return cls(sequence=text.splitlines(True))
    if form == "kw-sequence-generator":
        return cls(sequence=_generate(text.splitlines(True)))
    if form == "kw-sequence-BytesIO":
        return cls(sequence=io.BytesIO(text.encode("utf-8")), encoding="utf-8")
    if form == "bytes-other-encoding":
        enc = other_encoding(text)
        return cls(text.encode(enc), encoding=enc)
    if form == "BytesIO-other-encoding":
        enc = other_encoding(text)
        return cls(io.BytesIO(text.encode(enc)), encoding=enc)
    if form == "bytes-lines-other-encoding":
        enc = other_encoding(text)
        return cls(text.encode(enc).splitlines(True), encoding=enc)
    if form in MIXED_FORMS:
        lines = text.encode("utf-8").splitlines(True)
        lines.insert(1, MIXED_LINE)
        src = {"mixed-bytes": b"".join(lines), "mixed-bytes-lines": lines, "mixed-BytesIO": io.BytesIO(b"".join(lines))}[form]
        with warnings.catch_warnings():
            warnings.simplefilter("ignore")
            return cls(src)
    if form in ("iter_paragraphs", "iter_paragraphs-lines", "iter_paragraphs-BytesIO"):
        # two paragraphs: the one under test and a second one that must not leak into it
        more = text + "\nOrigin: second paragraph\n"
        src = {"iter_paragraphs": more, "iter_paragraphs-lines": more.splitlines(True),
               "iter_paragraphs-BytesIO": io.BytesIO(more.encode("utf-8"))}[form]
        ps = list(cls.iter_paragraphs(src))
        if len(ps) != 2 or type(ps[0]) is not cls or ps[1].get("Origin") != "second paragraph":
            raise ValueError("iter_paragraphs gave %r" % (ps,))
        return ps[0]
    raise AssertionError(form)


def form_bases(cname, seed):
    """family F: the (field subset, record count) pairs of one class; -> list of (dir, fields)"""
    table = TABLE[cname]
    n = len(table)
    if cname == "PdiffIndex":
        subsets = [[1], list(range(n)), [0, 9, 13]]      # History alone; all 14; Current + SHA256-Patches + X-Unmerged-SHA256-Download
    else:
        subsets = [[0], list(range(n)), [1, 3]]
    out = []
    for sub in subsets:
        for nrec in (2, 3):
            fields = [[spell(table[fi][0], seed), table[fi][1], rotating_records(len(table[fi][1]), fi, nrec, seed)] for fi in sub]
            d = "text-multi"
            if cname == "PdiffIndex" and any(len(table[fi][1]) == 2 for fi in sub):
                d = "text-natural"
                fields = [[nm, s, recs[:1] if len(s) == 2 else recs] for nm, s, recs in fields]
            out.append((d, fields))
    return out


# ---- family B: the other routes.  The same records reach the paragraph another way (B_BUILD), the same text is read with
# fields= (B_PARSE), Release.size_field_behavior is set another way (B_SET_BEH); and for every B case the dump is also taken
# the other ways and the records are also read the other ways (route_checks).
B_BUILD = ["assign-list", "assign-update", "assign-setdefault", "assign-records-deb822dict", "assign-from-parsed",
           "assign-int-sizes", "assign-twice", "after-refused-dump"]
B_PARSE = ["text-multi", "text-filtered", "text-filtered-iter", "text-filtered-positional"]
B_SET_BEH = ["method", "refused-value-afterwards", "other-value-first", "before-the-fields"]
B_CONFIGS = CONFIGS + [("Sources", None)]
DUMP_ROUTES = ["dump-again", "str", "bytes", "dump-fd-bytes", "dump-fd-text", "wrapper-dump", "wrapper-dump-fd"]
READ_ROUTES = ["get", "lower-case-name", "upper-case-name", "items", "values", "setdefault-present"]
RECORD_READ_ROUTES = ["items", "get", "dict()", "values", "iteration-and-len"]


def b_bases(cname, seed):
    """family B: (field subset, record count) pairs of one class -> list of (fields, all_fields)"""
    table = TABLE[cname]
    n = len(table)
    subsets = [[1], list(range(n)), [0, 9, 13]] if cname == "PdiffIndex" else [[0], list(range(n)), [1, 3]]
    out = []
    for sub in subsets:
        for nrec in (1, 2, 3):
            def mk(fi):
                return [spell(table[fi][0], seed), table[fi][1], rotating_records(len(table[fi][1]), fi, nrec, seed)]
            out.append(([mk(fi) for fi in sub], [mk(fi) for fi in range(n)]))
    return out


def b_cases(cname, beh, seed):
    out = []
    for fields, allf in b_bases(cname, seed):
        for d in B_BUILD + B_PARSE:
            case = {"family": "B", "cls": cname, "beh": beh, "dir": d, "fields": fields, "routes": True}
            if d.startswith("text-filtered"):
                case["all_fields"] = allf
            out.append(case)
        if beh is not None:
            for sb in B_SET_BEH:
                for d in ("assign-list", "text-multi"):
                    if sb == "before-the-fields" and d != "assign-list":
                        continue        # a parsed paragraph has its fields from the start
                    out.append({"family": "B", "cls": cname, "beh": beh, "dir": d, "fields": fields, "routes": True, "set_beh": sb})
    return out


def set_behavior(p, beh, how):
    if how == "method":
        p.set_size_field_behavior(beh)
    elif how == "refused-value-afterwards":
        p.size_field_behavior = beh
        for wrong in ("DAK", "", None):
            try:
                p.size_field_behavior = wrong
            except ValueError:
                pass            # refused: the behaviour set before must still be in force
    elif how == "other-value-first":
        p.size_field_behavior = "dak" if beh == "apt-ftparchive" else "apt-ftparchive"
        p.dump()
        p.size_field_behavior = beh
    else:
        p.size_field_behavior = beh


def _pairs(r):
    return [(k, r[k]) for k in r.keys()]


def route_checks(p, case, fields, single, text, cfg):
    """the other ways of dumping paragraph `p` (whose dump() is `text`) and of reading its records
    -> (list of (sig, expected, observed), evaluations)"""
    from debian import deb822
    cname, beh = case["cls"], case["beh"]
    parsed = case["dir"].startswith("text-")
    bad = []
    ev = 0
    for rn in DUMP_ROUTES:
        ev += 1
        try:
            if rn == "dump-again":
                t2 = p.dump()
            elif rn == "str":
                t2 = str(p)
            elif rn == "bytes":
                t2 = bytes(p).decode("utf-8")
            elif rn == "wrapper-dump":
                t2 = deb822.RestrictedWrapper(p).dump()
            else:
                fd = io.StringIO() if rn == "dump-fd-text" else io.BytesIO()
                if rn == "dump-fd-text":
                    r = p.dump(fd, text_mode=True)
                elif rn == "dump-fd-bytes":
                    r = p.dump(fd=fd, encoding="utf-8")
                else:
                    r = deb822.RestrictedWrapper(p).dump(fd)
                t2 = fd.getvalue() if rn == "dump-fd-text" else fd.getvalue().decode("utf-8")
                if r is not None:
                    bad.append(("mv/%s/via-%s/returns" % (cfg, rn), None, r))
        except Exception as e:
            bad.append(("mv/%s/via-%s/raises/%s" % (cfg, rn, type(e).__name__), "the text of dump()", _exc(e)))
            continue
        if t2 != text:
            # another text than dump(): it is held to the statement on its own
            b2, n2 = check_text(cname, beh, fields, single, t2, "via-%s/" % rn)
            ev += n2
            bad += b2
    # the per-field formatter under every spelling of the name: the field's block of the dump
    for nm, _s, _recs in fields:
        for sp in (nm, nm.lower(), nm.upper()):
            ev += 1
            try:
                v = p.get_as_string(sp)
            except Exception as e:
                bad.append(("mv/%s/via-get_as_string/raises/%s" % (cfg, type(e).__name__), "the field's text", _exc(e)))
                continue
            block = "\n%s:%s%s\n" % (nm, "" if (not v or v.startswith("\n")) else " ", v)
            nxt = ("\n" + text).find(block)
            if nxt < 0 or ("\n" + text)[nxt + len(block):nxt + len(block) + 1] == " ":
                bad.append(("mv/%s/via-get_as_string/not-the-block-of-dump" % cfg, text, "get_as_string(%r) = %r" % (sp, v)))
    # the other ways of reading a structured field and a record
    want = dict((n, [[(k, str(x)) for k, x in zip(s_, r)] for r in recs]) for n, s_, recs in fields)
    stored = dict((k.lower(), k) for k in p.keys())
    index = dict((k.lower(), i) for i, k in enumerate(p.keys()))
    for nm, s_, _recs in fields:
        for rn in READ_ROUTES:
            ev += 1
            try:
                if rn == "get":
                    v = p.get(nm)
                elif rn == "lower-case-name":
                    v = p[nm.lower()]
                elif rn == "upper-case-name":
                    v = p[nm.upper()]
                elif rn == "items":
                    v = dict(p.items())[stored[nm.lower()]]
                elif rn == "values":
                    v = list(p.values())[index[nm.lower()]]
                else:
                    v = p.setdefault(nm, "unused")
                _shape, got = records_of(v)
                got = [[(k, str(x)) for k, x in r] for r in got]
                if not parsed:      # records handed in as plain dicts keep the key order they were given
                    got = [sorted(r, key=lambda kv: s_.index(kv[0]) if kv[0] in s_ else -1) for r in got]
            except Exception as e:
                bad.append(("mv/%s/read-via-%s/raises/%s" % (cfg, rn, type(e).__name__), want[nm], _exc(e)))
                continue
            if got != want[nm]:
                bad.append(("mv/%s/read-via-%s/records" % (cfg, rn), want[nm], got))
        if not parsed:
            continue
        try:
            v = p[nm]
            recs_now = [v] if hasattr(v, "keys") else list(v)
        except Exception as e:
            bad.append(("mv/%s/record-read/raises/%s" % (cfg, type(e).__name__), want[nm], _exc(e)))
            continue
        for rn in RECORD_READ_ROUTES:
            ev += 1
            try:
                if rn == "items":
                    got = [list(r.items()) for r in recs_now]
                elif rn == "get":
                    got = [[(k, r.get(k, "absent")) for k in r.keys()] for r in recs_now]
                elif rn == "dict()":
                    got = [list(dict(r).items()) for r in recs_now]
                elif rn == "values":
                    got = [list(zip(r.keys(), r.values())) for r in recs_now]
                else:
                    got = [[(k, r[k]) for k in r if k in r] if len(r) == len(s_) else "len() = %d" % len(r) for r in recs_now]
            except Exception as e:
                bad.append(("mv/%s/record-read-via-%s/raises/%s" % (cfg, rn, type(e).__name__), want[nm], _exc(e)))
                continue
            if got != want[nm]:
                bad.append(("mv/%s/record-read-via-%s/records" % (cfg, rn), want[nm], got))
    return bad, ev


def exec_case(case, stats=None):
    """-> list of (sig, expected, observed).  stats: optional Counter receiving outcome classes."""
    cname, beh = case["cls"], case["beh"]
    cfg = cfg_name(cname, beh)
    cls = _cls(cname)
    d = case["dir"]
    form = case.get("form")           # family F: how the text is handed to the constructor / how the dump is taken
    fields = [(n, list(s), [list(r) for r in recs]) for n, s, recs in case["fields"]]
    present = set(n.lower() for n, _s, _r in fields)
    structured = set(n.lower() for n, _s in TABLE[cname])
    want = dict((n, [list(zip(s, r)) for r in recs]) for n, s, recs in fields)
    single = dict((n, is_single_form(case, s, recs)) for n, s, recs in fields)
    evals = [0]

    def note(k):
        if stats is not None:
            if form:
                stats["input form %s (all class configurations): %s" % (form, k)] += 1
            elif case.get("family") == "B":
                stats["route %s%s (all class configurations): %s" % (d, " + behaviour set " + case["set_beh"] if case.get("set_beh") else "", k)] += 1
            else:
                stats["%s %s: %s" % (cfg, d, k)] += 1

    def finish(bad):
        if stats is not None:
            stats["__evaluations__"] += evals[0]
        if form:        # a failure that needs this form is a different bug: it gets its own signature
            bad = [(b[0].replace("mv/%s/" % cfg, "mv/%s/in-%s/" % (cfg, form), 1),) + tuple(b[1:]) for b in bad]
        if case.get("family") == "B":       # ... and so is one that needs this route
            how = d + ("+behavior-" + case["set_beh"] if case.get("set_beh") else "")
            bad = [(b[0].replace("mv/%s/" % cfg, "mv/%s/by-%s/" % (cfg, how), 1),) + tuple(b[1:]) for b in bad]
        return bad

    # ---- 1. construct
    set_beh = case.get("set_beh")
    try:
        if d.startswith("text-filtered"):
            # every structured field of the class is in the text; fields= names the ones of the case
            text_in = make_text(dict(case, fields=case["all_fields"], dir="text-multi"))
            flt = ["Origin"] + [n for n, _s, _r in fields] + ["Label"]
            if d == "text-filtered":
                p = cls(text_in, fields=list(flt))
            elif d == "text-filtered-positional":
                p = cls(text_in.splitlines(True), list(flt))
            else:
                with warnings.catch_warnings():
                    warnings.simplefilter("ignore")
                    ps = list(cls.iter_paragraphs(text_in + "\nOrigin: second paragraph\nLabel: z\n", fields=list(flt)))
                if len(ps) != 2 or type(ps[0]) is not cls or list(ps[1].items()) != [("Origin", "second paragraph"), ("Label", "z")]:
                    raise ValueError("iter_paragraphs(fields=...) gave %r" % (ps,))
                p = ps[0]
        elif d.startswith("text-"):
            p = construct(cls, make_text(case), form)
        else:
            from debian.deb822 import Deb822Dict
            p = cls({"Origin": "x"})
            for i in range(case.get("extra", 0)):
                p["X-Extra-%d" % i] = "e%d" % i
            if set_beh == "before-the-fields":
                p.size_field_behavior = beh
            for n, s, recs in fields:
                # sub-fields are inserted in reverse so that only the class table can give the line order
                dicts = [dict(reversed(list(zip(s, r)))) for r in recs]
                if d == "assign-mapping":
                    p[n] = dicts[0]
                elif d == "assign-update":
                    p.update({n: dicts})
                elif d == "assign-setdefault":
                    p.setdefault(n, dicts)
                elif d == "assign-records-deb822dict":
                    p[n] = [Deb822Dict(list(reversed(list(zip(s, r))))) for r in recs]
                elif d == "assign-from-parsed":
                    p[n] = cls(make_text(dict(case, dir="text-multi")))[n]
                elif d == "assign-int-sizes":
                    p[n] = [dict(x, size=int(x["size"])) for x in dicts]
                elif d == "assign-twice":
                    p[n] = [dict((k, v + "0") for k, v in x.items()) for x in dicts[:1]]
                    p.dump()
                    p[n] = dicts
                elif d == "after-refused-dump":
                    p[n] = [dict(x) for x in dicts]
                    p[n][-1][s[-1]] = dicts[-1][s[-1]] + "\nInjected: 1"
                    try:
                        p.dump()
                    except ValueError:
                        pass
                    p[n][-1][s[-1]] = dicts[-1][s[-1]]
                else:
                    p[n] = dicts
            p["Label"] = "y"
        if beh is not None and set_beh != "before-the-fields":
            set_behavior(p, beh, set_beh)
    except Exception as e:
        note("construct raises " + type(e).__name__)
        return finish([("mv/%s/construct/raises/%s" % (cfg, type(e).__name__), "no exception", _exc(e))])
    bad = []
    # ---- 2. parsing exposes each line as a record with the documented names
    if d.startswith("text-"):
        for n, s, recs in fields:
            evals[0] += 1
            try:
                shape, got = records_of(p[n])
            except Exception as e:
                bad.append(("mv/%s/parse/raises/%s" % (cfg, type(e).__name__), want[n], _exc(e)))
                continue
            if got != want[n]:
                bad.append(("mv/%s/parse/records" % cfg, want[n], got))
            elif shape != ("mapping" if single[n] else "list"):
                bad.append(("mv/%s/parse/shape" % cfg, "mapping" if single[n] else "list", shape))
        for n, _s in TABLE[cname]:
            if n.lower() not in present and n in p:
                bad.append(("mv/%s/parse/phantom-field" % cfg, "%s absent" % n, "present"))
        if bad:
            note("parse mismatch")
            return finish(bad)
    # ---- 3. dump never raises
    carved = beh == "dak" and any(single.values())
    evals[0] += 1
    try:
        text = p.dump()
    except Exception as e:
        key = e.args[0] if isinstance(e, KeyError) and e.args else None
        if isinstance(key, str) and key.lower() in structured and key.lower() not in present:
            note("dump raises KeyError for an absent field")
            return finish([("mv/%s/dump/KeyError-absent-field" % cfg, "dump() returns text", _exc(e))])
        if carved and isinstance(e, TypeError):
            note("outside the statement (dak + single-line form): dump raises TypeError")
            return finish([])
        note("dump raises " + type(e).__name__)
        return finish([("mv/%s/dump/raises/%s" % (cfg, type(e).__name__), "dump() returns text", _exc(e))])
    if not isinstance(text, str):
        return finish([("mv/%s/dump/type" % cfg, "str", type(text).__name__)])
    # ---- 4./5. re-parse gives the same records in the same order; the size column
    bad, n = check_text(cname, beh, fields, single, text)
    evals[0] += n
    if case.get("routes") and not bad:
        bad, n = route_checks(p, case, fields, single, text, cfg)
        evals[0] += n
    if form and not bad:
        # ---- 6. (family F) the way the text came in / the dump goes out makes no difference: the paragraph dumps to the very
        # text that the plain-str form dumps to, whether dump() returns it or writes it to a binary / text file object
        evals[0] += 3
        try:
            ref = cls(make_text(case))
            if beh is not None:
                ref.size_field_behavior = beh
            ref_text = ref.dump()
        except Exception as e:
            return finish([("mv/%s/form/reference-raises/%s" % (cfg, type(e).__name__), "cls(str) dumps", _exc(e))])
        if form in MIXED_FORMS:
            # how the legacy line itself decodes is the detector's business
            cmp_text = "".join(l for l in text.splitlines(True) if not l.startswith("Maintainer:"))
        else:
            cmp_text = text
        if cmp_text != ref_text:
            bad.append(("mv/%s/form/dump-differs-from-str-form" % cfg, ref_text, text))
        enc = other_encoding(make_text(case)) if form.endswith("-other-encoding") else "utf-8"
        for how, want_out in (("fd-bytes", text.encode(enc)), ("fd-text", text)):
            fd = io.BytesIO() if how == "fd-bytes" else io.StringIO()
            try:
                r = p.dump(fd) if how == "fd-bytes" else p.dump(fd, text_mode=True)
            except Exception as e:
                bad.append(("mv/%s/dump/%s/raises/%s" % (cfg, how, type(e).__name__), "dump(fd) writes the text", _exc(e)))
                continue
            if r is not None:
                bad.append(("mv/%s/dump/%s/returns" % (cfg, how), None, r))
            elif fd.getvalue() != want_out:
                bad.append(("mv/%s/dump/%s/text" % (cfg, how), want_out, fd.getvalue()))
    note("violating" if bad else "round-trips")
    # one report per signature
    seen = set()
    uniq = []
    for b in bad:
        if b[0] not in seen:
            seen.add(b[0])
            uniq.append(b)
    return finish(uniq)


# ------------------------------------------------------------------------------------------------ family H: edit histories
#
# One object is built, dumped (checked as in S/R), then edited and dumped again, up to H_DEPTH edits.  The record lists are
# mutable and meant to be edited in place, so "the paragraph" that a dump must render is whatever the object holds at that
# moment: everything the statement says about a dump is demanded of every dump of the history.

H_DEPTH = {"quick": 2, "thorough": 4}
H_DIRS = {"quick": ["assign-list", "text-multi"], "thorough": ["assign-list", "text-multi", "text-aligned", "text-mixed"]}
H_INITIALS = {"quick": 2, "thorough": 3}
H_OPS = ["append-longer", "del-longest", "grow-size", "shrink-size", "extend-two", "replace-record", "reassign",
         "del-field", "switch-behavior", "other:append-longer", "other:del-field"]
# what kind of edit the last one was (part of the signature: a different way of losing track of an edit is a different bug)
H_CLASS = {"append-longer": "in-place", "del-longest": "in-place", "grow-size": "in-place", "shrink-size": "in-place",
           "extend-two": "in-place", "replace-record": "in-place", "other:append-longer": "in-place",
           "reassign": "reassign", "del-field": "del-field", "other:del-field": "del-field",
           "switch-behavior": "switch-behavior"}


def digits(n, seed):
    """a size of n digits (deterministic; no leading zero)"""
    src = symbols(seed)[1][2].replace("0", "4") * 3
    return src[:n]


def h_initials(nsub, seed, tier="quick"):
    """the initial record lists of the edited field: sizes of 1 and 2 digits; of 17 digits (wider than 16) and 1;
    thorough also: three records, the two longest sizes of equal width (2, 2, 1 digits)"""
    toks, sizes = symbols(seed)

    def rec(i, size):
        return [size if j == 1 else toks[(i + j) % 4] for j in range(nsub)]
    out = [[rec(0, sizes[0]), rec(1, sizes[1])], [rec(2, sizes[2]), rec(3, sizes[0])],
           [rec(1, sizes[1]), rec(3, sizes[1][::-1]), rec(0, sizes[0])]]
    return out[:H_INITIALS[tier]]


def h_new_record(nsub, k, size, seed):
    toks = symbols(seed)[0]
    return [size if j == 1 else toks[(k + 2 * j + 1) % 4] + "-n%d" % k for j in range(nsub)]


def h_applicable(model, beh, cname, seed):
    """concrete edits applicable to the model state, in canonical order.  model: [[name, subs, recs or None], [other...]]
    (None = the field is absent).  Every edit is [kind, ...concrete arguments]; field index 0 = the edited field, 1 = the
    other structured field of the paragraph."""
    out = []
    name, subs, recs = model[0]
    nsub = len(subs)
    if recs is not None:
        longest = max(len(r[1]) for r in recs)
        ilong = [len(r[1]) for r in recs].index(longest)
        nrec = len(recs)
        out.append(["append-longer", 0, h_new_record(nsub, nrec, digits(longest + 1, seed), seed)])
        if nrec >= 2:       # an empty record list is outside the statement
            out.append(["del-longest", 0, ilong])
        out.append(["grow-size", 0, 0, digits(longest + 1, seed)])
        out.append(["shrink-size", 0, ilong, digits(1, seed)])
        out.append(["extend-two", 0, [h_new_record(nsub, nrec, digits(1, seed), seed),
                                      h_new_record(nsub, nrec + 1, digits(longest + 2, seed), seed)]])
        out.append(["replace-record", 0, nrec - 1, h_new_record(nsub, nrec + 2, digits(longest + 1, seed), seed)])
    out.append(["reassign", 0, [h_new_record(nsub, 7, digits(3, seed), seed), h_new_record(nsub, 8, digits(5, seed), seed)]])
    if recs is not None:
        out.append(["del-field", 0])
    if beh is not None:
        out.append(["switch-behavior", "dak" if beh == "apt-ftparchive" else "apt-ftparchive"])
    _oname, osubs, orecs = model[1]
    if orecs is not None:
        olong = max(len(r[1]) for r in orecs)
        out.append(["other:append-longer", 1, h_new_record(len(osubs), len(orecs), digits(olong + 1, seed), seed)])
        out.append(["other:del-field", 1])
    return out


def h_apply_model(model, beh, op):
    """-> (new model, new behavior); the model is copied, never shared"""
    model = [[n, s, None if recs is None else [list(r) for r in recs]] for n, s, recs in model]
    k = op[0].split(":")[-1]
    if k == "switch-behavior":
        return model, op[1]
    f = model[op[1]]
    if k == "append-longer":
        f[2].append(list(op[2]))
    elif k == "del-longest":
        del f[2][op[2]]
    elif k in ("grow-size", "shrink-size"):
        f[2][op[2]][1] = op[3]
    elif k == "extend-two":
        f[2].extend([list(r) for r in op[2]])
    elif k == "replace-record":
        f[2][op[2]] = list(op[3])
    elif k == "reassign":
        f[2] = [list(r) for r in op[2]]
    elif k == "del-field":
        f[2] = None
    else:
        raise ValueError(op)
    return model, beh


def h_apply_real(p, model, op):
    """the same edit on the real object, the way a user of the class writes it"""
    k = op[0].split(":")[-1]
    if k == "switch-behavior":
        p.size_field_behavior = op[1]
        return
    name, subs, _recs = model[op[1]]

    def rec(r):      # sub-fields inserted in reverse, as in exec_case
        return dict(reversed(list(zip(subs, r))))
    if k == "append-longer":
        p[name].append(rec(op[2]))
    elif k == "del-longest":
        del p[name][op[2]]
    elif k in ("grow-size", "shrink-size"):
        p[name][op[2]]["size"] = op[3]
    elif k == "extend-two":
        p[name].extend([rec(r) for r in op[2]])
    elif k == "replace-record":
        p[name][op[2]] = rec(op[3])
    elif k == "reassign":
        p[name] = [rec(r) for r in op[2]]
    elif k == "del-field":
        del p[name]
    else:
        raise ValueError(op)


def h_histories(model, beh, cname, seed, depth):
    """all edit sequences of length 0..depth, shortest first (breadth-first over the model)"""
    level = [([], model, beh)]
    out = [[]]
    for _d in range(depth):
        nxt = []
        for ops, m, b in level:
            for op in h_applicable(m, b, cname, seed):
                m2, b2 = h_apply_model(m, b, op)
                nxt.append((ops + [op], m2, b2))
        out += [ops for ops, _m, _b in nxt]
        level = nxt
    return out


def exec_history(case, stats=None):
    """case: family H.  -> list of (sig, expected, observed); stops at the first dump that is wrong."""
    cname, beh = case["cls"], case["beh"]
    cfg = cfg_name(cname, beh)
    cls = _cls(cname)
    d = case["dir"]
    model = [[n, list(s), [list(r) for r in recs]] for n, s, recs in case["fields"]]
    evals = [0]

    def note(k):
        if stats is not None:
            stats["%s %s: %s" % (cfg, d, k)] += 1

    def finish(bad):
        if stats is not None:
            stats["__evaluations__"] += evals[0]
        seen = set()
        return [b for b in bad if not (b[0] in seen or seen.add(b[0]))]

    try:
        if d.startswith("text-"):
            p = cls(make_text(case))
        else:
            p = cls({"Origin": "x"})
            for n, s, recs in model:
                p[n] = [dict(reversed(list(zip(s, r)))) for r in recs]
            p["Label"] = "y"
        if beh is not None:
            p.size_field_behavior = beh
    except Exception as e:
        note("construct raises " + type(e).__name__)
        return finish([("mv/%s/construct/raises/%s" % (cfg, type(e).__name__), "no exception", _exc(e))])

    def dump_and_check(pre, cfg_now, beh_now, what, full=True):
        """one dump of the object in its current state against the model's current state (+ a repeated dump).
        full=False: only that it returns text - this dump is the last one of a shorter history, which is a case of its own"""
        fields = [(n, s, recs) for n, s, recs in model if recs is not None]
        single = dict((n, False) for n, _s, _r in fields)
        cfg_now = cfg_name(cname, beh_now)          # the configuration at the time of this dump
        evals[0] += 1
        try:
            text = p.dump()
        except Exception as e:
            return [("mv/%s/%sdump/raises/%s" % (cfg_now, pre, type(e).__name__), "dump() returns text " + what, _exc(e))]
        if not isinstance(text, str):
            return [("mv/%s/%sdump/type" % (cfg_now, pre), "str", type(text).__name__)]
        if not full:
            return []
        bad, n = check_text(cname, beh_now, fields, single, text, pre)
        evals[0] += n
        if bad or not pre:
            return bad
        # the object survives the dump: the same text again, and it still holds the edited records
        evals[0] += 2
        try:
            again = p.dump()
        except Exception as e:
            return [("mv/%s/%sdump-again/raises/%s" % (cfg_now, pre, type(e).__name__), "dump() returns the same text", _exc(e))]
        if again != text:
            bad.append(("mv/%s/%sdump-again/text" % (cfg_now, pre), text, again))
        for n, s, recs in model:
            if recs is None:
                if n in p:
                    bad.append(("mv/%s/%sobject/phantom-field" % (cfg_now, pre), "%s absent" % n, "present"))
                continue
            try:
                got = [dict((k, r[k]) for k in r.keys()) for r in p[n]]
            except Exception as e:
                bad.append(("mv/%s/%sobject/raises/%s" % (cfg_now, pre, type(e).__name__), recs, _exc(e)))
                continue
            if got != [dict(zip(s, r)) for r in recs]:
                bad.append(("mv/%s/%sobject/records" % (cfg_now, pre), [dict(zip(s, r)) for r in recs], got))
        return bad

    bad = dump_and_check("", cfg, beh, "(first dump)", full=not case["ops"])
    if bad:
        note("first dump wrong")
        return finish(bad)
    done = []
    for i, op in enumerate(case["ops"]):
        pre = "edit/%s/" % H_CLASS[op[0]]
        try:
            h_apply_real(p, model, op)
        except Exception as e:
            note("edit raises " + type(e).__name__)
            return finish([("mv/%s/%sraises/%s" % (cfg, pre, type(e).__name__), "the edit is applied", "%r: %s" % (op, _exc(e)))])
        model, beh = h_apply_model(model, beh, op)
        done.append(op[0])
        bad = dump_and_check(pre, cfg, beh, "after " + ", ".join(done), full=i == len(case["ops"]) - 1)
        if bad:
            note("wrong after an edit")
            return finish(bad)
    note("all %d dumps right" % (1 + len(case["ops"])))
    return finish([])


# ------------------------------------------------------------------------------------------------ family I: two objects alive
#
# Two paragraphs of the classes with a size column exist at the same time, hold different records and are configured
# differently (a Release left alone uses the documented default, apt-ftparchive = 16 columns); every dump of either has to be
# what the statement says for that object alone.

I_CLASSES = [("Release", "Release"), ("Release", "PdiffIndex"), ("PdiffIndex", "Release")]
I_BEHS = [None, "dak", "apt-ftparchive"]
I_ORDERS = ["one-after-the-other", "interleaved"]


def i_plans():
    out = []
    for c0, c1 in I_CLASSES:
        for b0 in (I_BEHS if c0 == "Release" else [None]):
            for b1 in (I_BEHS if c1 == "Release" else [None]):
                for order in I_ORDERS:
                    out.append([c0, c1, b0, b1, order])
    return out


def i_fields(cname, shift, seed):
    table = TABLE[cname]
    sub = [0, len(table) - 1]
    return [[spell(table[fi][0], seed), table[fi][1], rotating_records(len(table[fi][1]), fi + shift, 2 + shift, seed)]
            for fi in sub]


def exec_iso(case, stats=None):
    c = [case["c0"], case["c1"]]
    b = [case["b0"], case["b1"]]
    fields = [[(n, list(sf), [list(r) for r in recs]) for n, sf, recs in case["fields%d" % i]] for i in (0, 1)]
    objs = [None, None]

    def new(i):
        sub = dict(case, cls=c[i], fields=case["fields%d" % i])
        if case["dir"].startswith("text-"):
            objs[i] = _cls(c[i])(make_text(sub))
        else:
            o = _cls(c[i])({"Origin": "x"})
            for n, sf, recs in fields[i]:
                o[n] = [dict(zip(sf, r)) for r in recs]
            o["Label"] = "y"
            objs[i] = o

    def conf(i):
        if b[i] is not None:
            objs[i].size_field_behavior = b[i]

    if case["order"] == "one-after-the-other":
        steps = [(new, 0), (conf, 0), (new, 1), (conf, 1)]
        dumps = [0, 1, 0]
    else:
        steps = [(new, 0), (new, 1), (conf, 0), (conf, 1)]
        dumps = [1, 0, 1]
    try:
        for f, i in steps:
            f(i)
    except Exception as e:
        return [("mv/two-objects/construct/raises/%s" % type(e).__name__, "no exception", _exc(e))]
    evals = 0
    for k, i in enumerate(dumps):
        eff = (b[i] or "apt-ftparchive") if c[i] == "Release" else None
        try:
            text = objs[i].dump()
        except Exception as e:
            return [("mv/two-objects/dump/raises/%s" % type(e).__name__, "dump() returns text", _exc(e))]
        single = dict((n, False) for n, _s, _r in fields[i])
        bad, n = check_text(c[i], eff, fields[i], single, text, pre="two-objects/")
        evals += n
        if bad:
            if stats is not None:
                stats["__evaluations__"] += evals
            return [(sig, exp, "dump #%d (of object %d, %s%s, the other being %s%s): %s" % (
                k + 1, i, c[i], "/" + str(b[i]) if c[i] == "Release" else "", c[1 - i],
                "/" + str(b[1 - i]) if c[1 - i] == "Release" else "", obs)) for sig, exp, obs in bad[:1]]
    if stats is not None:
        stats["__evaluations__"] += evals
        stats["two objects alive (%s + %s): every dump as for the object alone" % (c[0], c[1])] += 1
    return []


# ------------------------------------------------------------------------------------------------ family L: ladders
# Beyond the small scope: count ladders (records per field, plain fields in front of the structured ones) and size ladders
# (size tokens of 15..18 digits, name tokens of 1 KiB .. 128 KiB).  A case stores the description of its record lists
# ("gen"), never the records; it is expanded and run through the executor and oracle of S / F.
L_SMALL = list(range(1, 41))
L_BIG = [63, 64, 65, 100, 127, 128, 129, 255, 256, 257, 999, 1000, 1001, 1025]
L_BIG_THOROUGH = [2500, 2501, 5000]
L_EXTRA_BIG = [63, 64, 65, 100, 127, 128, 129, 255, 256, 257, 999, 1000, 1001]
L_LONG_SIZES = [15, 16, 17, 18]
L_NAME_SIZES = [997, 998, 999, 1000, 4095, 4096, 4097, 16383, 16384, 16385, 65535, 65536, 65537, 131071, 131072, 131073]
L_NAME_SIZES_THOROUGH = [262143, 262144, 262145]
L_BLOCKS = [4096, 16384, 65536, 131072, 262144]
L_TOKENS = {"colon": "W:t", "two-byte": "é", "hash": "#"}
L_WHERE = ("first", "middle", "last")


def l_fields_of(cname):
    """the structured fields a ladder is run on: the first of the class; for the pdiff index a two-column and a
    three-column one"""
    return [0, 1] if cname == "PdiffIndex" else [0]


def l_expand(case):
    """description -> [(field name, sub-field names, records)]"""
    g, seed, cname = case["gen"], case["seed"], case["cls"]
    toks, _sizes = symbols(seed)
    table = TABLE[cname]
    name, subs = table[g["field"]]
    n = g["n"]
    recs = []
    for i in range(n):
        rec = []
        for j in range(len(subs)):
            if j == 1:
                rec.append(str((i * 7) % 997 + 1))
            elif j == len(subs) - 1 and j != 0:
                rec.append(toks[(i + j) % 4] + str(i))
            else:
                rec.append(toks[(i + j) % 4])
        recs.append(rec)
    if g.get("long_at"):
        recs[{"first": 0, "middle": n // 2, "last": n - 1}[g["long_at"]]][1] = "1234567890123456789"[:g["long_len"]]
    if g.get("name_len"):
        # a token of L characters (the name; the hash where the record has no third column); "at" is an offset in the
        # record's line of the dump (" hash size name")
        L = g["name_len"]
        rec = recs[{"first": 0, "middle": n // 2, "last": n - 1}[g["name_at"]]]
        col = 0 if len(subs) == 2 else len(subs) - 1
        body = toks[0][0] * L
        if g.get("token"):
            t = L_TOKENS[g["token"]]
            q = g["at"] - (1 + sum(len(rec[j]) + 1 for j in range(col)))
            assert 0 < q and q + len(t) < L, (g, q)
            body = body[:q] + t + body[q + len(t):]
        rec[col] = body
    out = [(spell(name, seed), list(subs), recs)]
    if g.get("neighbour"):
        ofi = (g["field"] + 1) % len(table)
        out.append((spell(table[ofi][0], seed), list(table[ofi][1]), rotating_records(len(table[ofi][1]), ofi, 2, seed)))
    return out


def l_family(case):
    g = case["gen"]
    return "ladder-" + g["ladder"] if g["ladder"] != "name-size" else "size-name-" + (g.get("token") or "filler")


def exec_ladder(case, stats=None):
    fam = l_family(case)
    cfg = cfg_name(case["cls"], case["beh"])
    bad = exec_case(dict(case, fields=l_expand(case), family="S"), stats)
    if stats is not None:
        stats["%s (all class configurations): %s" % (fam, "violating" if bad else "round-trips")] += 1
    return [(b[0].replace("mv/%s/" % cfg, "mv/%s/%s/" % (cfg, fam), 1), _l_short(b[1]), _l_short(b[2])) for b in bad]


def _l_short(x):
    import re
    t = x if isinstance(x, str) else repr(x)
    t = re.sub(r"(.)\1{39,}", lambda m: "<%r x %d>" % (m.group(1), len(m.group(0))), t, flags=re.S)
    return t if len(t) <= 1200 else t[:550] + " ...<%d characters>... " % (len(t) - 1100) + t[-550:]


def l_cases(cname, beh, what, arg, tier, seed):
    """the cases of one rung for one class configuration, simplest first"""
    out = []

    def add(gen, dirs, **kw):
        for d in dirs:
            c = {"family": "L", "cls": cname, "beh": beh, "dir": d, "gen": gen, "seed": seed}
            if d == "text-multi":
                c["form"] = "str"           # also: dump(fd) binary / text write the text of dump()
            c.update(kw)
            assert c.get("form") in (None, "str", "bytes", "BytesIO")
            out.append(c)
    both = ["assign-list", "text-multi"]
    if what == "records":
        n = arg
        for fi in l_fields_of(cname):
            add({"ladder": "records", "field": fi, "n": n, "neighbour": n % 3 == 0}, both + ["text-aligned", "text-mixed"] if n <= 40 else ["assign-list"])
            if n <= 40:
                # one record with a size of 15 / 16 / 17 / 18 digits: first, in the middle or last (rotating with n)
                for ll in L_LONG_SIZES:
                    w = L_WHERE[(n + ll) % 3] if n > 2 else L_WHERE[0] if n == 1 or ll % 2 else L_WHERE[2]
                    add({"ladder": "records", "field": fi, "n": n, "long_at": w, "long_len": ll}, both)
            else:
                add({"ladder": "records", "field": fi, "n": n, "long_at": "last" if n % 2 else "first", "long_len": 17 + n % 2}, ["text-multi"])
    elif what == "extra":
        m = arg
        add({"ladder": "plain-fields", "field": 0, "n": 2, "neighbour": True}, both, extra=m)
        add({"ladder": "plain-fields", "field": l_fields_of(cname)[-1], "n": 3, "long_at": "middle", "long_len": 17}, both, extra=m)
    else:
        L = arg
        fi = l_fields_of(cname)[-1]
        places = [40, L - 4]
        for b in L_BLOCKS:
            places += [b - 1, b, b + 1, b - 3]
        places = [q for i, q in enumerate(places) if 40 <= q <= L - 4 and q not in places[:i]]
        add({"ladder": "name-size", "field": fi, "n": 1, "name_len": L, "name_at": "first"}, both)
        add({"ladder": "name-size", "field": fi, "n": 3, "name_len": L, "name_at": "middle"}, ["text-multi"])
        for tname in sorted(L_TOKENS):
            for q in places if L < 65535 else places[-4:]:
                gen = {"ladder": "name-size", "field": fi, "n": 2, "name_len": L, "name_at": "last", "token": tname, "at": q}
                if tname == "two-byte":
                    # read from bytes / a binary file: the character's two bytes lie on both sides of the boundary
                    add(gen, ["text-multi"], form=FORMS[1] if q % 2 else FORMS[9])
                else:
                    add(gen, ["text-multi"] if q % 2 else ["assign-list"])
    return out


def l_units(tier):
    out = []
    for n in L_SMALL + L_BIG + (L_BIG_THOROUGH if tier != "quick" else []):
        out.append({"family": "L", "cls": None, "beh": None, "what": "records", "arg": n})
    for m in L_SMALL + L_EXTRA_BIG:
        out.append({"family": "L", "cls": None, "beh": None, "what": "extra", "arg": m})
    for L in L_NAME_SIZES + (L_NAME_SIZES_THOROUGH if tier != "quick" else []):
        out.append({"family": "L", "cls": None, "beh": None, "what": "name-size", "arg": L})
    return out


def nontrivial(case):
    if case["family"] == "L":
        return True
    if case["family"] == "I":
        return True
    if case["family"] == "H":
        return bool(case["ops"])
    n_struct = len(TABLE[case["cls"]])
    if 0 < len(case["fields"]) < n_struct:
        return True
    return any(len(set(len(r[1]) for r in recs)) > 1 for _n, _s, recs in case["fields"])


def run_unit(u, tier, seed):
    import collections
    part = core.Part()
    cname, beh = u["cls"], u["beh"]
    table = TABLE.get(cname)
    stats = collections.Counter()

    def run(case):
        part.states += 1
        part.transitions += 1
        part.traces += 1
        bad = exec_case(case, stats)
        if nontrivial(case):
            part.nontrivial += 1
        for sig, exp, obs in bad:
            part.violation(sig, case, exp, obs)

    if u["family"] == "L":
        case = None
        for cname, beh in CONFIGS:
            for case in l_cases(cname, beh, u["what"], u["arg"], tier, seed):
                part.states += 1
                part.transitions += 1
                part.traces += 1
                part.nontrivial += 1
                for sig, exp, obs in exec_ladder(case, stats):
                    part.violation(sig, case, exp, obs, rank=u["arg"])
                part.extra["L %s ladder cases" % u["what"]] += 1
        part.max_depth = max(part.max_depth, u["arg"])
        part.sample(case)
    elif u["family"] == "I":
        for c0, c1, b0, b1, order in i_plans():
            for d in ("assign-list", "text-multi"):
                case = {"family": "I", "c0": c0, "c1": c1, "b0": b0, "b1": b1, "order": order, "dir": d,
                        "fields0": i_fields(c0, 0, seed), "fields1": i_fields(c1, 1, seed)}
                part.states += 1
                part.transitions += 3
                part.traces += 1
                part.nontrivial += 1
                for sig, exp, obs in exec_iso(case, stats):
                    part.violation(sig, case, exp, obs)
                part.extra["I plans (two objects alive)"] += 1
        part.max_depth = max(part.max_depth, 7)
        part.sample(case)
    elif u["family"] == "H":
        fi = u["field"]
        name, subs = table[fi]
        ofi = (fi + 1) % len(table)
        oname, osubs = table[ofi]
        for ii, initial in enumerate(h_initials(len(subs), seed, tier)):
            if u.get("init", ii) != ii:
                continue
            model = [[spell(name, seed), subs, initial], [spell(oname, seed), osubs, rotating_records(len(osubs), ofi, 2, seed)]]
            hs = h_histories(model, beh, cname, seed, H_DEPTH[tier])
            for d in ([u["dir"]] if "dir" in u else H_DIRS[tier]):
                for ops in hs:
                    case = {"family": "H", "cls": cname, "beh": beh, "dir": d, "ops": ops, "fields": model}
                    part.states += 1
                    part.transitions += 1 if ops else 0
                    part.traces += 1
                    bad = exec_history(case, stats)
                    if ops:
                        part.nontrivial += 1
                    for sig, exp, obs in bad:
                        part.violation(sig, case, exp, obs, rank=len(ops))
                    part.extra["H histories of %d edits" % len(ops)] += 1
                    for op in ops:
                        part.extra["H edit " + op[0]] += 1
                    part.max_depth = max(part.max_depth, len(ops))
            part.sample(case)
    elif u["family"] == "B":
        for case in b_cases(cname, beh, seed):
            run(case)
            part.extra["B cases"] += 1
            part.extra["B route " + case["dir"] + (" + behaviour set " + case["set_beh"] if case.get("set_beh") else "")] += 1
            part.max_depth = max(part.max_depth, len(case["fields"]))
        part.sample(case)
    elif u["family"] == "F":
        for d, fields in form_bases(cname, seed):
            part.states += 1
            part.transitions += 1
            for form in FORMS:
                case = {"family": "F", "cls": cname, "beh": beh, "dir": d, "fields": fields, "form": form}
                run(case)
                part.extra["F cases"] += 1
                part.extra["F input form " + form] += 1
            part.max_depth = max(part.max_depth, len(fields))
        part.sample(case)
    elif u["family"] == "S":
        for sub in u["subsets"]:
            part.states += 1
            part.extra["S subsets"] += 1
            part.max_depth = max(part.max_depth, len(sub))
            for nrec, shift in s_lists(tier):
                part.states += 1
                part.transitions += 1
                fields = [[spell(table[fi][0], seed), table[fi][1], rotating_records(len(table[fi][1]), fi + shift, nrec, seed)]
                          for fi in sub]
                dirs = list(DIRS_ANY)
                if nrec == 1:
                    dirs += DIRS_ONE
                if cname == "PdiffIndex" and any(len(table[fi][1]) == 2 for fi in sub) and nrec > 1:
                    dirs.append("text-natural")
                if nrec == 2 and sub:
                    dirs.append("text-filtered")     # the subset is what fields= lets through of a text holding every field
                for d in dirs:
                    fs = fields
                    if d == "text-natural":
                        fs = [[n, s, recs[:1] if len(s) == 2 else recs] for n, s, recs in fields]
                    case = {"family": "S", "cls": cname, "beh": beh, "dir": d, "fields": fs}
                    if d == "text-filtered":
                        case["all_fields"] = [[spell(table[fi][0], seed), table[fi][1],
                                               rotating_records(len(table[fi][1]), fi + shift, nrec, seed)] for fi in range(len(table))]
                    run(case)
                    part.extra["S cases"] += 1
            if len(sub) in (0, 2, len(table)):
                part.sample(case)
    else:
        fi = u["field"]
        name, subs = table[fi]
        for recs in record_lists(len(subs), tier, seed):
            if len(recs) != u["length"]:
                continue
            part.states += 1
            part.transitions += 1
            if len(recs) == 1:       # "text-mixed" with one record is the single-line form
                dirs = [x for x in DIRS_R if x != "text-mixed"] + DIRS_ONE
            else:
                dirs = list(DIRS_R)
            for d in dirs:
                case = {"family": "R", "cls": cname, "beh": beh, "dir": d, "fields": [[spell(name, seed), subs, recs]]}
                run(case)
                part.extra["R cases"] += 1
        part.max_depth = max(part.max_depth, u["length"])
        part.sample(case)
    part.evaluations += stats.pop("__evaluations__", 0)
    part.outcomes.update(stats)
    return part


def replay(case):
    if case["family"] == "L":
        return exec_ladder(case)
    if case["family"] == "I":
        return exec_iso(case)
    if case["family"] == "H":
        return exec_history(case)
    return exec_case(case)


def repro_py(case):
    if case["family"] in ("H", "I", "L") or case.get("form"):
        return "from mc.props import c12\ncase = %r\nbad = c12.replay(case)\nassert not bad, bad\n" % (case,)
    lines = ["from debian import deb822", "case = %r" % (case,)]
    if case["dir"].startswith("text-"):
        lines.append("p = deb822.%s(%r)" % (case["cls"], make_text(case)))
    else:
        lines.append("p = deb822.%s({'Origin': 'x'})" % case["cls"])
        for n, s, recs in case["fields"]:
            dicts = [dict(zip(s, r)) for r in recs]
            lines.append("p[%r] = %r" % (n, dicts[0] if case["dir"] == "assign-mapping" else dicts))
    if case["beh"]:
        lines.append("p.size_field_behavior = %r" % case["beh"])
    lines.append("text = p.dump()          # must not raise")
    lines.append("p2 = deb822.%s(text)" % case["cls"])
    for n, s, recs in case["fields"]:
        lines.append("v = p2[%r]; got = [dict(v)] if hasattr(v, 'keys') else [dict(r) for r in v]" % n)
        lines.append("assert got == %r, (got, text)" % ([dict(zip(s, r)) for r in recs],))
    return "\n".join(lines) + "\n"
