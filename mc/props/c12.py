"""C12 - structured multi-line fields round-trip as records and can always be dumped.

Engine B over two families of inputs, for the six class configurations Dsc, Changes, BuildInfo, PdiffIndex,
Release(apt-ftparchive), Release(dak):

  S  "subsets":  every subset of the class's structured fields present (the others absent), each present field
                 carrying 1, 2 or 3 records (tokens/sizes rotate deterministically with field and record index);
  R  "records":  one structured field present, its record list enumerated exhaustively (all single records; all
                 pairs / triples over a reduced record alphabet that keeps every size-width combination).

Every input is run in several directions: built through the API (assign a list of dicts / a single mapping) or
parsed from text (tight, column-aligned, first record on the header line, single-line, and for pdiff the natural
form with single-line *-Current fields).

Oracle (written from the statement and the class tables copied below, never from cls._multivalued_fields):
parsed records == generated records; dump() does not raise; cls(dump()) has the same records in the same order;
for Release/PdiffIndex each record is written as hash + " " + size.rjust(W) + " " + rest with W = 16
(apt-ftparchive) or the longest size in that field (dak, pdiff).
"""
import itertools

from .. import core

ID = "C12"
LEVEL = "model_checking"
RULE = ("inputs = (class configuration, set of structured fields present, record list per field, direction) walked as a "
        "choice tree class -> subset/field -> record list -> direction (states = nodes, transitions = edges, traces = "
        "paragraphs built or parsed, dumped and re-parsed on the real classes); non-trivial = cases in which some but not "
        "all structured fields of the class are present, or a field holds sizes of different widths")
BUDGET = {"quick": 240, "thorough": 3000}

# ---- the documented sub-field names (display spelling of the field, sub-field names in line order)
_CK = lambda h: [h, "size", "name"]
TABLE = {
    "Dsc": [("Files", _CK("md5sum")), ("Checksums-Sha1", _CK("sha1")), ("Checksums-Sha256", _CK("sha256")),
            ("Checksums-Sha512", _CK("sha512"))],
    "Changes": [("Files", ["md5sum", "size", "section", "priority", "name"]), ("Checksums-Sha1", _CK("sha1")),
                ("Checksums-Sha256", _CK("sha256")), ("Checksums-Sha512", _CK("sha512"))],
    "BuildInfo": [("Checksums-Md5", _CK("md5")), ("Checksums-Sha1", _CK("sha1")), ("Checksums-Sha256", _CK("sha256")),
                  ("Checksums-Sha512", _CK("sha512"))],
    "Release": [("MD5Sum", _CK("md5sum")), ("SHA1", _CK("sha1")), ("SHA256", _CK("sha256")), ("SHA512", _CK("sha512"))],
    "PdiffIndex": [],
}
_ROLES = [("Current", None), ("History", "date"), ("Patches", "date"), ("Download", "filename"),
          ("X-Unmerged-History", "date"), ("X-Unmerged-Patches", "date"), ("X-Unmerged-Download", "filename")]
for _h in ("SHA1", "SHA256"):
    for _role, _third in _ROLES:
        if _role.startswith("X-Unmerged-"):
            _name = "X-Unmerged-%s-%s" % (_h, _role[len("X-Unmerged-"):])
        else:
            _name = "%s-%s" % (_h, _role)
        TABLE["PdiffIndex"].append((_name, [_h, "size"] + ([_third] if _third else [])))

CONFIGS = [("Dsc", None), ("Changes", None), ("BuildInfo", None), ("PdiffIndex", None),
           ("Release", "apt-ftparchive"), ("Release", "dak")]
FIXED_WIDTH = {("Release", "apt-ftparchive"): 16, ("Release", "dak"): "longest", ("PdiffIndex", None): "longest"}

DIRS_ANY = ["assign-list", "text-multi"]
DIRS_ONE = ["assign-mapping", "text-single"]           # a single record in single-line form
DIRS_R = ["assign-list", "text-multi", "text-aligned", "text-mixed"]


def cfg_name(cname, beh):
    return cname + ({"apt-ftparchive": "-aptf", "dak": "-dak", None: ""}[beh])


def bounds(tier):
    return {"class_configurations": [cfg_name(*c) for c in CONFIGS],
            "S_subsets": {"Dsc/Changes/BuildInfo/Release": "all 2^4 subsets",
                          "PdiffIndex": "all 2^14 subsets" if tier == "thorough" else
                          "all subsets of size <= 3 and >= 11 (covers every present/absent combination of any 3 fields) + "
                          "every product {SHA1,SHA256}-subset x role-subset (%d subsets in all)" % len(pdiff_subsets("quick"))},
            "S_records_per_field": "1, 2, 3 (rotating tokens/sizes)",
            "S_directions": DIRS_ANY + ["text-natural (pdiff: *-Current single-line)"] + DIRS_ONE,
            "R_record_lists": "length 1: all records over 4 tokens x 3 sizes per sub-field; length 2: all ordered pairs over %s; "
                              "length 3: all triples over %s" % (
                                  ("12 records (4 tokens x 3 sizes)", "6 records (2 tokens x 3 sizes)") if tier == "quick" else
                                  ("24 records (4 x 3 x 2: independent hash/rest tokens)", "12 records (4 tokens x 3 sizes)")),
            "R_directions": DIRS_R + DIRS_ONE,
            "tokens": "a, bb, x/y.z, e-acute (seed rotates representatives)", "sizes": "1, 22, 17 digits"}


def assumptions():
    return ["the documented sub-field names are the class tables of deb822.py at design time (copied into the check)",
            "tokens are non-empty and whitespace-free; record lists are non-empty (empty lists are outside the statement)",
            "a paragraph is 'built' by cls({plain fields}) followed by item assignment of a list of dicts (or one mapping)",
            "CARVE-OUT (new): Release with size_field_behavior='dak' and a structured field in single-line form "
            "(Release('MD5Sum: aaa 12 x\\n') or r['SHA1'] = {one mapping}) raises TypeError in dump() on both trees; the "
            "statement only promises dumping for *lists* of records and for *absent* fields, and Release checksum fields are "
            "multi-line by format, so the dump demand is not made there (parsing is still checked; counted in extra)",
            "re-parsed records are compared as records: a single-line field re-read as one mapping counts as the list of that one record",
            "seed rotates token representatives and the spelling (case) of the field names; both are equivalent for a "
            "case-insensitive, whitespace-splitting implementation"]


# ------------------------------------------------------------------------------------------------ symbols

def symbols(seed):
    toks = [core.rep(seed, ["a", "q", "Z", "7"]), core.rep(seed, ["bb", "qq", "ZZ", "77"]),
            core.rep(seed, ["x/y.z", "x-y_z", "x+y~z", "x.y/z"]), core.rep(seed, ["\u00e9", "\u00fc", "\u00df", "\u65e5"])]
    sizes = core.rep(seed, [["1", "22", "12345678901234567"], ["7", "40", "98765432109876543"],
                            ["0", "99", "10000000000000000"], ["5", "31", "55555555555555555"]])
    return toks, sizes


def spell(name, seed):
    return core.rep(seed, [name, name.lower(), name.upper(), name])


def rotating_records(nsub, fi, nrec, seed):
    toks, sizes = symbols(seed)
    recs = []
    for r in range(nrec):
        rec = []
        for j in range(nsub):
            rec.append(sizes[(r + fi) % 3] if j == 1 else toks[(r + j + fi) % 4])
        recs.append(rec)
    return recs


def pdiff_subsets(tier):
    n = 14
    allidx = range(n)
    if tier == "thorough":
        out = []
        for k in range(n + 1):
            out += [list(c) for c in itertools.combinations(allidx, k)]
        return out
    chosen = set()
    for k in list(range(0, 4)) + list(range(11, 15)):
        chosen.update(itertools.combinations(allidx, k))
    for hs in ([0], [1], [0, 1]):
        for k in range(8):
            for roles in itertools.combinations(range(7), k):
                chosen.add(tuple(sorted(h * 7 + r for h in hs for r in roles)))
    return [list(c) for c in sorted(chosen, key=lambda c: (len(c), c))]


def subsets_for(cname, tier):
    if cname == "PdiffIndex":
        return pdiff_subsets(tier)
    out = []
    for k in range(5):
        out += [list(c) for c in itertools.combinations(range(4), k)]
    return out


def record_lists(nsub, tier, seed):
    """all record lists of family R for a field with nsub sub-fields, simplest first"""
    toks, sizes = symbols(seed)
    out = []
    for combo in itertools.product(*[(sizes if j == 1 else toks) for j in range(nsub)]):
        out.append([list(combo)])
    diag = [[(s if j == 1 else t) for j in range(nsub)] for t in toks for s in sizes]
    small = [[(s if j == 1 else t) for j in range(nsub)] for t in (toks[0], toks[3]) for s in sizes]
    if tier == "thorough":
        wide = [[(s if j == 1 else (t if j == 0 else u)) for j in range(nsub)]
                for t in toks for s in sizes for u in (toks[1], toks[2])]
        pairs, triples = wide, diag
    else:
        pairs, triples = diag, small
    out += [[a, b] for a in pairs for b in pairs]
    out += [[a, b, c] for a in triples for b in triples for c in triples]
    return out


# ------------------------------------------------------------------------------------------------ units

S_CHUNK = 48


def units(tier, seed):
    out = []
    for cname, beh in CONFIGS:
        subs = subsets_for(cname, tier)
        for i in range(0, len(subs), S_CHUNK):
            out.append({"family": "S", "cls": cname, "beh": beh, "subsets": subs[i:i + S_CHUNK]})
    for cname, beh in CONFIGS:
        for fi in range(len(TABLE[cname])):
            for length in (1, 2, 3):
                out.append({"family": "R", "cls": cname, "beh": beh, "field": fi, "length": length})
    return out


def unit_cost(u, tier):
    if u["family"] == "S":
        return sum(len(s) + 1 for s in u["subsets"]) * 8
    nsub = len(TABLE[u["cls"]][u["field"]][1])
    return {1: 3 * 4 ** (nsub - 1), 2: 144 if tier == "quick" else 576, 3: 216 if tier == "quick" else 1728}[u["length"]] * 5


# ------------------------------------------------------------------------------------------------ execution

def _cls(cname):
    from debian import deb822
    return getattr(deb822, cname)


def _exc(e):
    return "%s: %s" % (type(e).__name__, e)


def make_text(case):
    """the text of a parsed-direction case (written by the harness, never by the code under test)"""
    lines = ["Origin: x\n"]
    d = case["dir"]
    for name, subs, recs in case["fields"]:
        single = d == "text-single" or (d == "text-natural" and len(subs) == 2)
        if single:
            assert len(recs) == 1
            lines.append("%s: %s\n" % (name, " ".join(recs[0])))
        elif d == "text-aligned":
            lines.append("%s:\n" % name)
            for r in recs:
                lines.append(" " + "  ".join(r[j].rjust(16) if j == 1 else r[j] for j in range(len(r))) + "\n")
        elif d == "text-mixed":
            lines.append("%s: %s\n" % (name, " ".join(recs[0])))
            for r in recs[1:]:
                lines.append(" " + " ".join(r) + "\n")
        else:
            lines.append("%s:\n" % name)
            for r in recs:
                lines.append(" " + " ".join(r) + "\n")
    lines.append("Label: y\n")
    return "".join(lines)


def is_single_form(case, subs, recs):
    d = case["dir"]
    if d in ("text-single", "assign-mapping"):
        return True
    if d == "text-natural" and len(subs) == 2:
        return True
    if d == "text-mixed" and len(recs) == 1:
        return True
    return False


def records_of(value):
    """observed value of a structured field -> (shape, list of records as lists of (name, value) pairs)"""
    if hasattr(value, "keys"):
        return "mapping", [[(k, value[k]) for k in value.keys()]]
    return "list", [[(k, r[k]) for k in r.keys()] for r in value]


def exec_case(case, stats=None):
    """-> list of (sig, expected, observed).  stats: optional Counter receiving outcome classes."""
    cname, beh = case["cls"], case["beh"]
    cfg = cfg_name(cname, beh)
    cls = _cls(cname)
    d = case["dir"]
    fields = [(n, list(s), [list(r) for r in recs]) for n, s, recs in case["fields"]]
    present = set(n.lower() for n, _s, _r in fields)
    structured = set(n.lower() for n, _s in TABLE[cname])
    want = dict((n, [list(zip(s, r)) for r in recs]) for n, s, recs in fields)
    single = dict((n, is_single_form(case, s, recs)) for n, s, recs in fields)
    evals = [0]

    def note(k):
        if stats is not None:
            stats["%s %s: %s" % (cfg, d, k)] += 1

    def finish(bad):
        if stats is not None:
            stats["__evaluations__"] += evals[0]
        return bad

    # ---- 1. construct
    try:
        if d.startswith("text-"):
            p = cls(make_text(case))
        else:
            p = cls({"Origin": "x"})
            for n, s, recs in fields:
                # sub-fields are inserted in reverse so that only the class table can give the line order
                dicts = [dict(reversed(list(zip(s, r)))) for r in recs]
                p[n] = dicts[0] if d == "assign-mapping" else dicts
            p["Label"] = "y"
        if beh is not None:
            p.size_field_behavior = beh
    except Exception as e:
        note("construct raises " + type(e).__name__)
        return finish([("mv/%s/construct/raises/%s" % (cfg, type(e).__name__), "no exception", _exc(e))])
    bad = []
    # ---- 2. parsing exposes each line as a record with the documented names
    if d.startswith("text-"):
        for n, s, recs in fields:
            evals[0] += 1
            try:
                shape, got = records_of(p[n])
            except Exception as e:
                bad.append(("mv/%s/parse/raises/%s" % (cfg, type(e).__name__), want[n], _exc(e)))
                continue
            if got != want[n]:
                bad.append(("mv/%s/parse/records" % cfg, want[n], got))
            elif shape != ("mapping" if single[n] else "list"):
                bad.append(("mv/%s/parse/shape" % cfg, "mapping" if single[n] else "list", shape))
        for n, _s in TABLE[cname]:
            if n.lower() not in present and n in p:
                bad.append(("mv/%s/parse/phantom-field" % cfg, "%s absent" % n, "present"))
        if bad:
            note("parse mismatch")
            return finish(bad)
    # ---- 3. dump never raises
    carved = beh == "dak" and any(single.values())
    evals[0] += 1
    try:
        text = p.dump()
    except Exception as e:
        key = e.args[0] if isinstance(e, KeyError) and e.args else None
        if isinstance(key, str) and key.lower() in structured and key.lower() not in present:
            note("dump raises KeyError for an absent field")
            return finish([("mv/%s/dump/KeyError-absent-field" % cfg, "dump() returns text", _exc(e))])
        if carved and isinstance(e, TypeError):
            note("outside the statement (dak + single-line form): dump raises TypeError")
            return finish([])
        note("dump raises " + type(e).__name__)
        return finish([("mv/%s/dump/raises/%s" % (cfg, type(e).__name__), "dump() returns text", _exc(e))])
    if not isinstance(text, str):
        return finish([("mv/%s/dump/type" % cfg, "str", type(text).__name__)])
    # ---- 4. re-parse gives the same records in the same order
    try:
        p2 = cls(text)
    except Exception as e:
        note("reparse raises")
        return finish([("mv/%s/reparse/raises/%s" % (cfg, type(e).__name__), "no exception", _exc(e) + " on " + repr(text))])
    for n, s, recs in fields:
        evals[0] += 1
        try:
            _shape, got = records_of(p2[n])
        except Exception as e:
            bad.append(("mv/%s/reparse/field-raises/%s" % (cfg, type(e).__name__), want[n], _exc(e) + " in " + repr(text)))
            continue
        if got != want[n]:
            bad.append(("mv/%s/reparse/records" % cfg, want[n], "%r from %r" % (got, text)))
    for k, v in (("Origin", "x"), ("Label", "y")):
        try:
            if p2[k] != v:
                bad.append(("mv/%s/reparse/plain-field" % cfg, v, "%r from %r" % (p2[k], text)))
        except KeyError:
            bad.append(("mv/%s/reparse/plain-field" % cfg, v, "absent from %r" % text))
    for n, _s in TABLE[cname]:
        if n.lower() not in present and n in p2:
            bad.append(("mv/%s/reparse/phantom-field" % cfg, "%s absent" % n, "present in %r" % text))
    # ---- 5. the size column
    width = FIXED_WIDTH.get((cname, beh))
    if width is not None:
        lines = text.split("\n")
        for n, s, recs in fields:
            evals[0] += 1
            w = width if width != "longest" else max(len(r[1]) for r in recs)
            exp = [" ".join(r[j].rjust(w) if j == 1 else r[j] for j in range(len(r))) for r in recs]
            idx = [i for i, l in enumerate(lines) if l.partition(":")[0].lower() == n.lower() and not l.startswith(" ")]
            if len(idx) != 1:
                bad.append(("mv/%s/align/field-lines" % cfg, "one %s block" % n, text))
                continue
            head = lines[idx[0]].partition(":")[2]
            block = []
            for l in lines[idx[0] + 1:]:
                if not l.startswith(" "):
                    break
                block.append(l)
            if single[n] and not block:
                got = [head.lstrip(" ")]
                ok = head.startswith(" ") and got == exp
            else:
                got = block
                ok = head == "" and block == [" " + e for e in exp]
                exp = [" " + e for e in exp]
            if not ok:
                bad.append(("mv/%s/align" % cfg, exp, "%r (header rest %r)" % (got, head)))
    note("violating" if bad else "round-trips")
    # one report per signature
    seen = set()
    uniq = []
    for b in bad:
        if b[0] not in seen:
            seen.add(b[0])
            uniq.append(b)
    return finish(uniq)


def nontrivial(case):
    n_struct = len(TABLE[case["cls"]])
    if 0 < len(case["fields"]) < n_struct:
        return True
    return any(len(set(len(r[1]) for r in recs)) > 1 for _n, _s, recs in case["fields"])


def run_unit(u, tier, seed):
    import collections
    part = core.Part()
    cname, beh = u["cls"], u["beh"]
    table = TABLE[cname]
    stats = collections.Counter()

    def run(case):
        part.states += 1
        part.transitions += 1
        part.traces += 1
        bad = exec_case(case, stats)
        if nontrivial(case):
            part.nontrivial += 1
        for sig, exp, obs in bad:
            part.violation(sig, case, exp, obs)

    if u["family"] == "S":
        for sub in u["subsets"]:
            part.states += 1
            part.extra["S subsets"] += 1
            part.max_depth = max(part.max_depth, len(sub))
            for nrec in (1, 2, 3):
                part.states += 1
                part.transitions += 1
                fields = [[spell(table[fi][0], seed), table[fi][1], rotating_records(len(table[fi][1]), fi, nrec, seed)]
                          for fi in sub]
                dirs = list(DIRS_ANY)
                if nrec == 1:
                    dirs += DIRS_ONE
                if cname == "PdiffIndex" and any(len(table[fi][1]) == 2 for fi in sub) and nrec > 1:
                    dirs.append("text-natural")
                for d in dirs:
                    fs = fields
                    if d == "text-natural":
                        fs = [[n, s, recs[:1] if len(s) == 2 else recs] for n, s, recs in fields]
                    case = {"family": "S", "cls": cname, "beh": beh, "dir": d, "fields": fs}
                    run(case)
                    part.extra["S cases"] += 1
            if len(sub) in (0, 2, len(table)):
                part.sample(case)
    else:
        fi = u["field"]
        name, subs = table[fi]
        for recs in record_lists(len(subs), tier, seed):
            if len(recs) != u["length"]:
                continue
            part.states += 1
            part.transitions += 1
            if len(recs) == 1:       # "text-mixed" with one record is the single-line form
                dirs = [x for x in DIRS_R if x != "text-mixed"] + DIRS_ONE
            else:
                dirs = list(DIRS_R)
            for d in dirs:
                case = {"family": "R", "cls": cname, "beh": beh, "dir": d, "fields": [[spell(name, seed), subs, recs]]}
                run(case)
                part.extra["R cases"] += 1
        part.max_depth = max(part.max_depth, u["length"])
        part.sample(case)
    part.evaluations += stats.pop("__evaluations__", 0)
    part.outcomes.update(stats)
    return part


def replay(case):
    return exec_case(case)


def repro_py(case):
    lines = ["from debian import deb822", "case = %r" % (case,)]
    if case["dir"].startswith("text-"):
        lines.append("p = deb822.%s(%r)" % (case["cls"], make_text(case)))
    else:
        lines.append("p = deb822.%s({'Origin': 'x'})" % case["cls"])
        for n, s, recs in case["fields"]:
            dicts = [dict(zip(s, r)) for r in recs]
            lines.append("p[%r] = %r" % (n, dicts[0] if case["dir"] == "assign-mapping" else dicts))
    if case["beh"]:
        lines.append("p.size_field_behavior = %r" % case["beh"])
    lines.append("text = p.dump()          # must not raise")
    lines.append("p2 = deb822.%s(text)" % case["cls"])
    for n, s, recs in case["fields"]:
        lines.append("v = p2[%r]; got = [dict(v)] if hasattr(v, 'keys') else [dict(r) for r in v]" % n)
        lines.append("assert got == %r, (got, text)" % ([dict(zip(s, r)) for r in recs],))
    return "\n".join(lines) + "\n"
