"""Client side of mc.zygote: evaluate cases of a property module in pristine library state."""
import ast
import os
import subprocess
import sys

from . import core


class Pristine(object):
    def __init__(self, pid):
        env = dict(os.environ)
        env["PYTHONHASHSEED"] = "0"
        self.p = subprocess.Popen([sys.executable, "-B", "-m", "mc.zygote", pid], cwd=core.VERIF, env=env,
                                  stdin=subprocess.PIPE, stdout=subprocess.PIPE, universal_newlines=True,
                                  encoding="utf-8", errors="backslashreplace")

    def replay(self, case):
        self.p.stdin.write(repr(case) + "\n")
        self.p.stdin.flush()
        line = self.p.stdout.readline()
        if not line:
            raise RuntimeError("zygote died")
        res = ast.literal_eval(line.strip())
        if isinstance(res, str):
            raise RuntimeError("zygote child failed:\n" + res)
        return res

    def close(self):
        try:
            self.p.stdin.close()
            self.p.wait(timeout=10)
        except Exception:
            self.p.kill()
