"""python -m mc.zygote <ID>  - pristine-state evaluation service.

Reads one case per line (repr) on stdin; each case is evaluated by mod.replay(case) in a child forked from this
process, which itself never executes any code of the library under test (it only imports it).  Every case therefore
sees the library in the state it has right after import: module-level caches, memo tables and class-level scratch
data are empty.  Writes one line (repr of the replay result) per case on stdout.
"""
import ast
import importlib
import os
import sys
import traceback


def main(argv):
    from . import core
    core.install_repo_path()
    mod = importlib.import_module("mc.props." + argv[0].lower())
    for name in getattr(mod, "PRISTINE_IMPORTS", ()):
        importlib.import_module(name)
    out = sys.stdout
    for line in sys.stdin:
        line = line.strip()
        if not line:
            continue
        case = ast.literal_eval(line)
        r, w = os.pipe()
        pid = os.fork()
        if pid == 0:
            os.close(r)
            try:
                res = repr([tuple(core._short(x) if i else x for i, x in enumerate(t)) for t in mod.replay(case)])
            except BaseException:
                res = repr("EXC " + traceback.format_exc())
            with os.fdopen(w, "w", encoding="utf-8", errors="backslashreplace") as f:
                f.write(res)
            os._exit(0)
        os.close(w)
        with os.fdopen(r, "r", encoding="utf-8") as f:
            data = f.read()
        os.waitpid(pid, 0)
        out.write(data.replace("\n", "\\n") + "\n")
        out.flush()
    return 0


if __name__ == "__main__":
    sys.exit(main(sys.argv[1:]))
