import itertools, collections, time, sys
from debian._deb822_repro.parsing import parse_deb822_file
from debian._deb822_repro.tokens import tokenize_deb822_file
S="A: #\n\t"
N=int(sys.argv[1])
res=collections.Counter(); ex={}; n=0; t0=time.time()
def split(s):
    out=[]; cur=""
    for ch in s:
        cur+=ch
        if ch=="\n": out.append(cur); cur=""
    if cur: out.append(cur)
    return out
for L in range(1,N+1):
    for t in itertools.product(S,repeat=L):
        s="".join(t); lines=split(s); n+=1
        try:
            d=parse_deb822_file(lines,accept_files_with_error_tokens=True,accept_files_with_duplicated_fields=True).dump()
            tk="".join(x.text for x in tokenize_deb822_file(lines))
        except Exception as e:
            k=(type(e).__name__,str(e)[:40]); res[k]+=1; ex.setdefault(k,s); continue
        if d!=s or tk!=s: res["mismatch"]+=1; ex.setdefault("mismatch",(s,d))
print(n,time.time()-t0,dict(res),ex)
