from debian.debian_support import Version, version_compare
for s in ["1.0\n", "١:1", "1:٣", "1-", "-1", "1--1", "1:", ":1", "1:2:3", "a:1", "", " 1", "1 ", "1_0", "é1", "0:-1", "1:-", "1.0-\n"]:
    try:
        v = Version(s); print(repr(s), "OK", repr(str(v)), v.epoch, v.upstream_version, v.debian_revision)
    except Exception as e: print(repr(s), "EXC", type(e).__name__)
print(hash(Version("1.0"))==hash(Version("1.00")), Version("1.0")==Version("1.00"), Version("0:1.0")==Version("1.0"), Version("1.0-0")==Version("1.0"))
v = Version("1:2.0-3")
for attr,val in [("upstream_version", None), ("epoch","x"), ("debian_revision","a-b"), ("upstream_version","")]:
    before=(str(v), v.epoch, v.upstream_version, v.debian_revision)
    try:
        setattr(v, attr, val); print("set", attr, repr(val), "->", str(v), v.epoch, v.upstream_version, v.debian_revision)
    except Exception as e:
        after=(str(v), v.epoch, v.upstream_version, v.debian_revision)
        print("set", attr, repr(val), "EXC", type(e).__name__, e, "unchanged" if before==after else ("CHANGED %r -> %r"%(before,after)))
        v = Version("1:2.0-3")
