import itertools
from debian import copyright as C
pool=["", " ", ".", "a", " a", "a ", "..", "é", "\t"]
bad=0;n=0
for L in range(1,5):
    for lines in itertools.product(pool, repeat=L):
        lines=list(lines); n+=1
        ok = all(not (l!="" and not l.strip()) and l!="." for l in lines[1:])
        s=C.format_multiline_lines(lines)
        try: back=C.parse_multiline_as_lines(s)
        except Exception as e: back=repr(e)
        if ok and back!=lines:
            bad+=1
            if bad<10: print("CODEC", lines, repr(s), back)
print(n,bad)
# document round trip
def mk(npar):
    c=C.Copyright()
    c.header.upstream_name="x"
    return c
lic=[C.License("GPL-2+"), C.License("MIT","line1\n\n  indented\nlast"), C.License("X","é\n.\nend") , C.License("", "only text")]
files=[["*"],["src/*","debian/*"],["a?b","\\*"]]
cps=["2020 A", "2020 A\n 2021 B é"]
paras=[]
for f in files:
  for cp in cps:
    for l in lic:
        paras.append(("F",f,cp,l))
for l in lic: paras.append(("L",l))
bad=0;n=0
for combo in itertools.chain([()],[(p,) for p in paras], itertools.product(paras[::5],repeat=2)):
    c=C.Copyright(); 
    for p in combo:
        if p[0]=="F": c.add_files_paragraph(C.FilesParagraph.create(p[1],p[2],p[3]))
        else: c.add_license_paragraph(C.LicenseParagraph.create(p[1]))
    n+=1
    try:
        s=c.dump(); c2=C.Copyright(s.splitlines(True), strict=True); s2=c2.dump()
    except Exception as e:
        bad+=1; print("EXC", combo, repr(e)); continue
    def sig(c):
        out=[]
        for p in c.all_paragraphs():
            if isinstance(p,C.FilesParagraph): out.append(("F",tuple(p.files),p.copyright,p.license))
            elif isinstance(p,C.LicenseParagraph): out.append(("L",p.license))
            else: out.append(("H",p.format,p.upstream_name))
        return out
    if s!=s2 or sig(c)!=sig(c2):
        bad+=1
        if bad<10: print("DOC", combo, repr(s), repr(s2), sig(c), sig(c2))
print(n,bad)
