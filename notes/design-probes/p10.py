import itertools, warnings
from debian.deb822 import PkgRelation as R
names=["a","a1","lib-x.y+z","0ad"]
archq=[None,"any","native","i386"]
vers=[None]+[(op,v) for op in ("<<","<=","=",">=",">>") for v in ("1","1:2.0-3~a+b")]
archs=[None,[R.ArchRestriction(True,"amd64")],[R.ArchRestriction(False,"i386"),R.ArchRestriction(False,"hurd-any")],[R.ArchRestriction(True,"linux-any"),R.ArchRestriction(True,"kfreebsd-amd64")]]
restr=[None,[[R.BuildRestriction(True,"stage1")]],[[R.BuildRestriction(False,"nocheck"),R.BuildRestriction(True,"cross")]],[[R.BuildRestriction(False,"a")],[R.BuildRestriction(True,"b"),R.BuildRestriction(False,"c")]]]
atoms=[{'name':n,'archqual':q,'version':v,'arch':a,'restrictions':r} for n in names for q in archq for v in vers for a in archs for r in restr]
print(len(atoms))
bad=0
def check(rels):
    global bad
    s=R.str(rels)
    with warnings.catch_warnings(record=True) as w:
        warnings.simplefilter("always")
        back=R.parse_relations(s)
    if back!=rels or w or R.str(back)!=s:
        bad+=1
        if bad<10: print("FAIL", s, back, rels, [str(x.message) for x in w])
for a in atoms: check([[a]])
import random
sub=atoms[::37]
for a,b in itertools.product(sub,sub): check([[a,b]]); check([[a],[b]])
print("bad",bad)
