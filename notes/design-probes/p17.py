import itertools
from debian.deb822 import Deb822
# C08 quick
S="a:# \t\r\n"
bad=0;n=0;acc=0
for L in range(0,7):
    for t in itertools.product(S,repeat=L):
        v="".join(t); n+=1
        p=Deb822(); p["X"]="1"; p["K"]="0"; p["Y"]="2"
        before=(list(p.items()), p.dump())
        try: p["K"]=v
        except ValueError:
            if (list(p.items()), p.dump())!=before: bad+=1; print("CHANGED on reject", repr(v))
            continue
        acc+=1
        d=p.dump()
        blankcont = any(not l.strip() for l in v.splitlines()[1:])
        for strict in ({'whitespace-separates-paragraphs':False}, None):
            if strict is None and blankcont: continue
            import io
            for src in (d, io.StringIO(d)):
                ps=list(Deb822.iter_paragraphs(src, strict=strict))
                if len(ps)!=1 or list(ps[0].keys())!=["X","K","Y"]:
                    bad+=1
                    if bad<15: print("INJECT", repr(v), strict, type(src).__name__, [list(q.items()) for q in ps])
print(n,acc,bad)
