import io, itertools, collections, os, tempfile
import debian.arfile as AF
from debian.arfile import ArFile, ArMember
# candidate fix
def readline(self, size=None):
    if self._ArMember__fp is None:
        if self._ArMember__fname is None: raise ValueError
        self._ArMember__fp = open(self._ArMember__fname, "rb")
    self._ArMember__fp.seek(self._ArMember__cur)
    remaining = self._ArMember__end - self._ArMember__cur
    if remaining <= 0: return b''
    if size is None or size < 0 or size > remaining: size = remaining
    buf = self._ArMember__fp.readline(size)
    self._ArMember__cur = self._ArMember__fp.tell()
    return buf
import sys
if "--fix" in sys.argv: ArMember.readline = readline
def mk(members, gnu=True):
    b = b"!<arch>\n"
    for name,data in members:
        nm = (name.encode()+(b"/" if gnu else b"")).ljust(16)
        b += nm + b"0".ljust(12) + b"0".ljust(6)+b"0".ljust(6)+b"100644".ljust(8)+str(len(data)).encode().ljust(10)+b"`\n"+data
        if len(data)%2: b+=b"\n"
    return b
contents=[b"", b"a", b"\n", b"ab", b"a\n", b"\na", b"a\nb", b"a\nb\n", b"\n\n"]
def ops_for(size):
    o=[("read",),("read",1),("read",2),("read",size+1),("read",-1),("readline",),("readline",1),("readline",2),("readlines",),("tell",)]
    for p in sorted({0,1,size,size+1}): o.append(("seek",p))
    o += [("seek",1,1),("seek",-1,1),("seek",0,2),("seek",-1,2)]
    return o
tot_states=tot_trans=0; viol=collections.Counter(); ex={}
for ca,cb in itertools.product(contents,repeat=2):
  for mode in ("shared","fname"):
    raw=mk([("a",ca),("b",cb)])
    data=[ca,cb]
    if mode=="fname":
        fd,path=tempfile.mkstemp(); os.write(fd,raw); os.close(fd)
    def build(h):
        if mode=="shared":
            under=io.BytesIO(raw); ar=ArFile(fileobj=under)
        else:
            under=None; ar=ArFile(filename=path)
        ms=ar.getmembers(); refs=[io.BytesIO(d) for d in data]
        res=None
        for (mi,op) in h:
            m=ms[mi]; r=refs[mi]
            if op[0]=="seek":
                whence=op[2] if len(op)>2 else 0
                base={0:0,1:r.tell(),2:len(data[mi])}[whence]
                if base+op[1]<0: return None
                m.seek(*op[1:]); r.seek(*op[1:]); res=(None,None)
            else:
                res=(getattr(m,op[0])(*op[1:]), getattr(r,op[0])(*op[1:]))
        key=tuple((ms[i].tell(),refs[i].tell()) for i in range(2))+((under.tell(),) if under else ())
        for m in ms: m.close()
        return res,key
    seen={build([])[1]}; frontier=collections.deque([[]])
    while frontier:
        h=frontier.popleft()
        for mi in (0,1):
            for op in ops_for(len(data[mi])):
                out=build(h+[(mi,op)])
                if out is None: continue
                res,key=out; tot_trans+=1
                bad = res[0]!=res[1] or any(k[0]!=k[1] for k in key[:2])
                if bad:
                    sig=(op[0],); viol[sig]+=1; ex.setdefault(sig,(ca,cb,mode,h+[(mi,op)],res,key)); continue
                if key not in seen: seen.add(key); frontier.append(h+[(mi,op)])
    tot_states+=len(seen)
    if mode=="fname": os.unlink(path)
print("states",tot_states,"transitions",tot_trans)
for k,c in viol.most_common(): print(c,k,ex[k])
