from debian._deb822_repro import parse_deb822_file
from debian._deb822_repro.parsing import Deb822ParagraphElement
def P(text):
    return parse_deb822_file(text.splitlines(keepends=True), accept_files_with_error_tokens=True, accept_files_with_duplicated_fields=True)
def show(label, f):
    print(label, repr(f.dump()))
f=P("A: b"); p=next(iter(f)); p["C"]="d"; show("add to unterminated:", f)
f=P("A: b\nC: d"); p=next(iter(f)); p["A"]="x"; show("set first when last unterminated:", f)
f=P("A: b\nC: d"); p=next(iter(f)); p["C"]="x"; show("set last unterminated:", f)
f=P("A: b\nC: d"); p=next(iter(f)); del p["C"]; show("del last unterminated:", f)
f=P("A: b\nC: d"); p=next(iter(f)); del p["A"]; show("del first:", f)
f=P("A: b\n\nC: d"); ps=list(f); ps[0]["X"]="y"; show("add to p0 (p1 unterminated):", f)
f=P("A: b\n\nC: d"); ps=list(f); ps[1]["X"]="y"; show("add to p1 unterminated:", f)
f=P("#c1\nA: b\n#c2\nC: d\n"); p=next(iter(f)); p["C"]="x"; show("set with comment:", f)
f=P("#c1\nA: b\n#c2\nC: d\n"); p=next(iter(f)); del p["C"]; show("del with comment:", f)
f=P("A: b\n c\n#c2\n d\nC: d\n"); p=next(iter(f)); p["A"]="x\n y"; show("multi:", f); print(repr(p["A"]))
f=P("a: b\nC: d\n"); p=next(iter(f)); p["A"]="x"; show("case:", f); print(list(p.keys()))
# append para to unterminated
f=P("A: b"); np=Deb822ParagraphElement.new_empty_paragraph(); np["X"]="y"; f.append(np); show("append para unterminated:", f)
f=P("A: b\n"); np=Deb822ParagraphElement.new_empty_paragraph(); np["X"]="y"; f.append(np); show("append para:", f)
f=P("A: b\n\n#free\n\nC: d"); np=Deb822ParagraphElement.new_empty_paragraph(); np["X"]="y"; f.insert(1,np); show("insert 1:", f)
f=P("A: b\n\nC: d"); np=Deb822ParagraphElement.new_empty_paragraph(); np["X"]="y"; f.insert(0,np); show("insert 0:", f)
f=P("A: b"); np=Deb822ParagraphElement.new_empty_paragraph(); np["X"]="y"; f.insert(0,np); show("insert 0 unterminated 1para:", f)
f=P("A: b\n\nC: d"); np=Deb822ParagraphElement.new_empty_paragraph(); np["X"]="y"; f.insert(2,np); show("insert 2 unterminated:", f)
f=P("A: b\nC: d"); p=next(iter(f)); p.order_first("C"); show("order_first unterminated:", f)
f=P("A: b\nC: d"); p=next(iter(f)); p.order_last("A"); show("order_last unterminated:", f)
f=P("A: b\nC: d"); p=next(iter(f)); p.sort_fields(key=lambda x: -ord(x[0])); show("sort unterminated:", f)
