import itertools, sys, collections, time
import debian._deb822_repro.parsing as P
from debian._deb822_repro.parsing import parse_deb822_file, Deb822ParagraphElement
FIX="--fix" in sys.argv
if FIX:
    ND=P.Deb822NoDuplicateFieldsParagraphElement; DP=P.Deb822DuplicateFieldsParagraphElement
    def nd_nl(self):
        for name in reversed(self._kvpair_order):
            self._kvpair_elements[name].value_element.add_final_newline_if_missing(); break
    def dp_nl(self):
        for kv in reversed(self._kvpair_order):
            kv.value_element.add_final_newline_if_missing(); break
    ND._nl=nd_nl; DP._nl=dp_nl
    for cls in (ND,DP):
        for name in ("order_first","order_last","order_before","order_after"):
            def wrap(orig):
                def f(self,*a): self._nl(); return orig(self,*a)
                return f
            setattr(cls,name,wrap(getattr(cls,name)))
    o_nd_set=ND.set_kvpair_element
    def nd_set(self,key,value):
        k,_,_=P._unpack_key(key, raise_if_indexed=True)
        if k not in self._kvpair_elements: self._nl()
        return o_nd_set(self,key,value)
    ND.set_kvpair_element=nd_set
    o_dp_set=DP.set_kvpair_element
    def dp_set(self,key,value):
        k,_,_=P._unpack_key(key)
        if not self._kvpair_elements.get(value.field_name): self._nl()
        return o_dp_set(self,key,value)
    DP.set_kvpair_element=dp_set
    # bulk order_first fix
    def order_first(self, field):
        self._nl()
        nodes, reloc = self._nodes_being_relocated(field)
        ko=self._kvpair_order
        for node in reversed(reloc):
            if ko.head_node is node: continue
            ko.remove_node(node); ko.insert_node_before(node, ko.head_node)
        if len(reloc)==1 and reloc[0] is not nodes[0]:
            s=reloc[0]; nodes.remove(s); nodes.insert(0,s)
    DP.order_first=order_first
    FE=P.Deb822FileElement
    o_app=FE.append
    def app(self, paragraph):
        tail=self._token_and_elements.tail
        if isinstance(tail, Deb822ParagraphElement):
            last=None
            for last in tail.iter_parts(): pass
            if last is not None: last.value_element.add_final_newline_if_missing()
        return o_app(self, paragraph)
    FE.append=app
def parse(t): return parse_deb822_file(t.splitlines(True), accept_files_with_error_tokens=True, accept_files_with_duplicated_fields=True)
# documents: list of paragraphs; each paragraph list of (name, text)
def F(name,val="v",layout=0):
    return (name, [name+": "+val+"\n", name+":"+val+"\n", "#cm "+name+"\n"+name+": "+val+"\n", name+": "+val+"\n more\n"][layout])
docs=[]
for fin in (True,False):
    docs.append(([[F("A","1"),F("B","2",1),F("C","3",2)]],fin))
    docs.append(([[F("A","1"),F("B","2"),F("A","3",3),F("C","4"),F("A","5",2)]],fin))
    docs.append(([[F("A","1"),F("B","2")],[F("C","3"),F("A","4")]],fin))
    docs.append(([[F("A","1")]],fin))
def render(doc,fin):
    t="\n".join("".join(x[1] for x in p) for p in doc)
    return t if fin else t[:-1]
def names(par): return [n for n,_ in par]
def occ(par,name): return [i for i,(n,_) in enumerate(par) if n==name]
def ops_for(doc):
    out=[]
    for pi,par in enumerate(doc):
        keys=[]
        for n in dict.fromkeys(names(par)):
            keys.append(n)
            if len(occ(par,n))>1: keys+= [(n,i) for i in range(len(occ(par,n)))]
        for k in keys:
            out.append(("first",pi,k)); out.append(("last",pi,k))
            for r in keys:
                kn=k if isinstance(k,str) else k[0]; rn=r if isinstance(r,str) else r[0]
                # moved set and ref disjoint
                moved=set(occ(par,kn)) if isinstance(k,str) else {occ(par,kn)[k[1]]}
                for t,refidx in (("before", occ(par,rn)[0] if isinstance(r,str) else occ(par,rn)[r[1]]),("after", occ(par,rn)[-1] if isinstance(r,str) else occ(par,rn)[r[1]])):
                    if refidx in moved: continue
                    out.append((t,pi,k,r))
            out.append(("set",pi,k,"z")); 
            if len(par)>1: out.append(("del",pi,k))
        out.append(("sort",pi))
        out.append(("set",pi,"N","n"))
    for i in range(len(doc)+1): out.append(("insert",i))
    out.append(("append",))
    return out
def m_apply(doc,op):
    doc=[list(p) for p in doc]; t=op[0]
    if t in("insert","append"):
        newp=[("X","X: y\n")]
        if t=="append": doc.append(newp)
        else: doc.insert(op[1],newp)
        return doc
    par=doc[op[1]]
    if t=="sort": par.sort(key=lambda x:x[0].lower()); return doc
    k=op[2]; kn=k if isinstance(k,str) else k[0]
    idxs=occ(par,kn) if isinstance(k,str) else [occ(par,kn)[k[1]]]
    if t=="set":
        if not idxs: par.append((kn,kn+": "+op[3]+"\n")); return doc
        first=idxs[0]; old=par[first][1]
        cm="".join(l for l in old.splitlines(True) if l.startswith("#") and old.index(l)<old.index(kn)) if old.startswith("#") else ""
        par[first]=(kn,cm+kn+": "+op[3]+"\n")
        for i in reversed(idxs[1:]): del par[i]
        return doc
    if t=="del":
        for i in reversed(idxs): del par[i]
        return doc
    moved=[par[i] for i in idxs]
    if t in("first","last"):
        rest=[x for i,x in enumerate(par) if i not in idxs]
        doc[op[1]]= moved+rest if t=="first" else rest+moved; return doc
    r=op[3]; rn=r if isinstance(r,str) else r[0]
    if isinstance(r,str): refidx=occ(par,rn)[0] if t=="before" else occ(par,rn)[-1]
    else: refidx=occ(par,rn)[r[1]]
    refitem=par[refidx]
    rest=[(i,x) for i,x in enumerate(par) if i not in idxs]
    pos=[j for j,(i,x) in enumerate(rest) if i==refidx][0]
    rest=[x for i,x in rest]
    ins=pos if t=="before" else pos+1
    doc[op[1]]=rest[:ins]+moved+rest[ins:]; return doc
def i_apply(f,op):
    t=op[0]
    if t in("insert","append"):
        np_=Deb822ParagraphElement.new_empty_paragraph(); np_["X"]="y"
        if t=="append": f.append(np_)
        else: f.insert(op[1],np_)
        return
    p=list(f)[op[1]]
    if t=="sort": p.sort_fields()
    elif t=="first": p.order_first(op[2])
    elif t=="last": p.order_last(op[2])
    elif t=="before": p.order_before(op[2],op[3])
    elif t=="after": p.order_after(op[2],op[3])
    elif t=="set": p[op[2]]=op[3]
    elif t=="del": del p[op[2]]
viol=collections.Counter(); ex={}; n=0
for doc,fin in docs:
    text=render(doc,fin)
    for op in ops_for(doc):
        n+=1
        f=parse(text); 
        try: i_apply(f,op)
        except Exception as e:
            k=("EXC",op[0],type(e).__name__); viol[k]+=1; ex.setdefault(k,(text,op,str(e))); continue
        m=m_apply(doc,op); out=f.dump()
        exp="\n".join("".join(x[1] for x in p) for p in m)
        okbytes = out==exp or (not fin and out==exp[:-1])
        # reparse
        f2=parse(out); got=[[ (kv.field_name, kv.convert_to_text()) for kv in p.iter_parts()] for p in f2]
        want=[[ (a,b) for a,b in p] for p in m]
        norm=lambda d:[[ (a,b if b.endswith("\n") else b+"\n") for a,b in p] for p in d]
        ok2 = norm(got)==norm(want)
        # index semantics
        ok3=True
        if op[0] not in("insert","append"):
            p=list(f)[op[1]]; mp=m[op[1]]
            for nme in set(names(mp)):
                for i,idx in enumerate(occ(mp,nme)):
                    try:
                        if p.get_kvpair_element((nme,i)).convert_to_text().rstrip("\n")!=mp[idx][1].rstrip("\n"): ok3=False
                    except Exception: ok3=False
        if not(okbytes and ok2 and ok3):
            k=("DIFF",op[0],"bytes" if not okbytes else "", "reparse" if not ok2 else "", "index" if not ok3 else "", "fin" if fin else "nofin", "dup" if any(len(set(names(p)))<len(p) for p in doc) else "nodup")
            viol[k]+=1; ex.setdefault(k,(text,op,out,exp))
print(n)
for k,c in viol.most_common(): print(c,k,ex[k])
