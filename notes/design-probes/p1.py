import warnings, io, itertools
from debian._deb822_repro import parse_deb822_file
from debian._deb822_repro.tokens import tokenize_deb822_file
def rt(lines):
    try:
        f = parse_deb822_file(lines, accept_files_with_error_tokens=True, accept_files_with_duplicated_fields=True)
        return f.dump()
    except Exception as e:
        return "EXC %r" % (e,)
for lines in (["\n", "  "], ["A: b\n", "  "], ["A: b\n","\n"," "], [" ", " "], ["A: b", "", "C: d"], ["A: b"," ", " ", "C: d"], ["\x0c\n"], ["A: b\n", "\x0b"], ["A:\x85b\n"], ["A: b\r\n"], ["A: b\n", " c"], ["#c"], ["#c\n", " x\n"], ["A: b\n", "#c\n", " x"], ["A: b\n","#c"], ["\u2028\n"], ["A: b\n", " \n", " c\n"]):
    print(repr(lines), "->", repr(rt(lines)), "exp", repr("".join(lines)))
