import io, itertools, collections, time, warnings
from debian.deb822 import Deb822, Dsc, Changes
names=["A","Long-Name","x1","a9"]
firsts=["","v",":x","#y","a b","a:b","é","-----BEGIN"]
conts=[" c","\td"," ."," e: f"," #g","  h  "," i\t"," -----BEGIN PGP X-----"]
values=[]
for f in firsts:
    for n in range(0,3):
        for cs in itertools.product(conts,repeat=n):
            values.append("\n".join((f,)+cs))
print(len(values),"values")
def forms(text):
    b=text.encode()
    return [("str",lambda:text),("bytes",lambda:b),("lines_nl",lambda:text.splitlines(True)),("lines_nonl",lambda:text.split("\n")[:-1] if text.endswith("\n") else text.split("\n")),("textio",lambda:io.StringIO(text)),("bytesio",lambda:io.BytesIO(b))]
def armor(text):
    return "-----BEGIN PGP SIGNED MESSAGE-----\nHash: SHA512\n\n"+text+"\n-----BEGIN PGP SIGNATURE-----\n\niQabc\n=xyz\n-----END PGP SIGNATURE-----\n"
def with_comments(text, where):
    ls=text.split("\n")[:-1]; out=[]
    for i,l in enumerate(ls):
        if where=="all" or where==i: out.append("#cm")
        out.append(l)
    if where=="all": out.append("#cm")
    return "\n".join(out)+"\n"
res=collections.Counter(); ex={}; n=0; t0=time.time()
# single paragraphs of 1-2 fields (second field fixed small set)
paras=[]
for v in values: paras.append([("A",v)])
for v in values[::7]:
    for w in values[::11]: paras.append([("A",v),("Long-Name",w)]); paras.append([("x1",w),("a9",v)])
print(len(paras),"paragraphs")
for par in paras:
    d=Deb822()
    try:
        for k,v in par: d[k]=v
    except ValueError: res["rejected-by-validate"]+=1; continue
    text=d.dump(); want=[(k,v) for k,v in par]
    variants=[("plain",text)]+[("c%s"%w,with_comments(text,w)) for w in ["all"]+list(range(text.count("\n")))]
    for vn,t in variants:
        for fn,mk in forms(t):
            n+=1
            got=list(Deb822(mk()).items()); gp=[list(p.items()) for p in Deb822.iter_paragraphs(mk())]
            if got!=want or gp!=[want]:
                k=("single",vn if vn in("plain","call") else "c<i>",fn); res[k]+=1; ex.setdefault(k,(par,t,got,gp))
    a=armor(text)
    for fn,mk in forms(a):
        for cls in (Deb822,Dsc,Changes):
            n+=1
            got=list(cls(mk()).items())
            if got!=want: k=("armor",fn,cls.__name__); res[k]+=1; ex.setdefault(k,(par,a,got))
    if Deb822(text).dump()!=text: res["redump"]+=1
# multi paragraph docs
pool=paras[::37][:20]
for docs in itertools.chain(itertools.product(pool,repeat=2), itertools.product(pool[:6],repeat=3)):
    texts=[]
    ok=True
    for par in docs:
        d=Deb822()
        try:
            for k,v in par: d[k]=v
        except ValueError: ok=False;break
        texts.append(d.dump())
    if not ok: continue
    t="\n".join(texts); want=[[(k,v) for k,v in par] for par in docs]
    for vn,tt in (("plain",t),("call",with_comments(t,"all"))):
        for fn,mk in forms(tt):
            n+=1
            gp=[list(p.items()) for p in Deb822.iter_paragraphs(mk())]
            if gp!=want: k=("multi",vn,fn); res[k]+=1; ex.setdefault(k,(docs,tt,gp))
print(n,time.time()-t0)
for k,c in res.most_common(): print(c,k,str(ex.get(k))[:500])
