import itertools, sys, time, re
import debian._deb822_repro.tokens as T
from debian._deb822_repro._util import BufferingIterator
if "--fix" in sys.argv:
    src=open(T.__file__).read()
    old_a = """    text_stream = BufferingIterator(_as_str(sequence))  # type: BufferingIterator[str]
    auto_correct_newlines = False
    first_line = text_stream.peek()
    if first_line is not None and not first_line.endswith("\\n"):
        # Special-case: Single line files count as "last line without a newline" rather than
        # auto-correction.
        auto_correct_newlines = text_stream.peek_at(2) is not None

    for no, line in enumerate(text_stream, start=1):
        if auto_correct_newlines:
            if line.endswith("\\n"):
                raise ValueError("Input is inconsistent with its line endings! Lines must "
                                 "consistently be *with* or *without* line endings")
            line += "\\n"
"""
    new_a = """    text_stream = BufferingIterator(_as_str(sequence))  # type: BufferingIterator[str]
    first_line = text_stream.peek()
    if first_line is not None and not first_line.endswith("\\n"):
        # Special-case: Single line files count as "last line without a newline" rather than
        # auto-correction.
        if text_stream.peek_at(2) is not None:
            def _with_newlines(stream):
                for x in stream:
                    if x.endswith("\\n"):
                        raise ValueError("Input is inconsistent with its line endings! Lines must "
                                         "consistently be *with* or *without* line endings")
                    yield x + "\\n"
            text_stream = BufferingIterator(_with_newlines(text_stream))

    for no, line in enumerate(text_stream, start=1):
"""
    assert old_a in src
    src=src.replace(old_a,new_a)
    old_b="r = list(text_stream.takewhile(lambda x: _RE_WHITESPACE_LINE.match(x) is not None))"
    new_b="r = list(text_stream.takewhile(lambda x: x.endswith('\\n') and _RE_WHITESPACE_LINE.match(x) is not None))"
    assert old_b in src; src=src.replace(old_b,new_b)
    exec(compile(src, T.__file__, "exec"), T.__dict__)
    import debian._deb822_repro.parsing as Pm
    Pm.tokenize_deb822_file=T.tokenize_deb822_file
from debian._deb822_repro.parsing import parse_deb822_file
from debian._deb822_repro.tokens import tokenize_deb822_file
shapes=[""," ","\t","\x0c","#c","#","A: b","A:b","A:","A: ","A:\tb \t","a: B","B: #x","B:: y","A: é","A: b\r"," c","\tc"," ."," #n"," k: v","junk",": x","-x: y","é: x","A b: c"]
N=int(sys.argv[1]) if len(sys.argv)>1 and sys.argv[1].isdigit() else 3
import collections
bad=collections.Counter(); ex={}; n=0; t0=time.time()
def check(lines, expect, mode):
    global n
    n+=1
    try:
        f=parse_deb822_file(list(lines),accept_files_with_error_tokens=True,accept_files_with_duplicated_fields=True); d=f.dump()
        tk="".join(t.text for t in tokenize_deb822_file(list(lines)))
    except Exception as e:
        k=(mode,type(e).__name__,str(e)[:50]); bad[k]+=1; ex.setdefault(k,lines); return
    if d!=expect or tk!=expect:
        k=(mode,"MISMATCH"); bad[k]+=1; ex.setdefault(k,(lines,d,expect))
for L in range(1,N+1):
    for seq in itertools.product(shapes,repeat=L):
        check([s+"\n" for s in seq], "".join(s+"\n" for s in seq), "all")
        if seq[-1]!="":
            check([s+"\n" for s in seq[:-1]]+[seq[-1]], "".join(s+"\n" for s in seq[:-1])+seq[-1], "lastopen")
        if L>=2:
            check(list(seq), "".join(s+"\n" for s in seq), "none")
print(n, time.time()-t0)
for k,c in bad.most_common(): print(c,k,ex[k])
