import itertools, sys, re
exec(open("p8fix.py").read().split("exec(open")[0])
from debian._deb822_repro import parse_deb822_file, LIST_SPACE_SEPARATED_INTERPRETATION as WS, LIST_COMMA_SEPARATED_INTERPRETATION as CS
def P(text):
    return parse_deb822_file(text.splitlines(keepends=True), accept_files_with_error_tokens=True)
pieces_ws=["a","bb"," ","\t","\n ","\n#c\n "]
pieces_cs=["a","b c",","," ","\n ","\n#c\n "]
bad=0;n=0
from collections import Counter
kinds=Counter(); ex={}
def edits(vals):
    yield ("append","z")
    for i,v in enumerate(vals):
        if v not in vals[:i]:
            yield ("remove",v); yield ("replace",v,"z")
    for i in range(len(vals)):
        yield ("refset",i,"z"); yield ("refremove",i)
def model(vals, e):
    vals=list(vals)
    if e[0]=="append": vals.append(e[1])
    elif e[0]=="remove": vals.remove(e[1])
    elif e[0]=="replace": vals[vals.index(e[1])]=e[2]
    elif e[0]=="refset": vals[e[1]]=e[2]
    elif e[0]=="refremove": del vals[e[1]]
    return vals
def apply(lst, e):
    if e[0]=="append": lst.append(e[1])
    elif e[0]=="remove": lst.remove(e[1])
    elif e[0]=="replace": lst.replace(e[1],e[2])
    elif e[0]=="refset": list(lst.iter_value_references())[e[1]].value=e[2]
    elif e[0]=="refremove": list(lst.iter_value_references())[e[1]].remove()
for interp,sep,pieces in ((WS," ",pieces_ws),(CS,",",pieces_cs)):
  for L in range(1,6):
    for seq in itertools.product(pieces, repeat=L):
        v="".join(seq)
        if v.endswith("\n ") or v.endswith("#c\n ") or not v.strip(): continue
        doc="X: 1\nF:"+v+"\nY: 2\n"
        try: f=P(doc)
        except Exception as e: continue
        if f.find_first_error_element() is not None: continue
        p=next(iter(f))
        if list(p.keys())!=["X","F","Y"] or len(list(f))!=1: continue
        vals=list(p.as_interpreted_dict_view(interp)["F"])
        for e in edits(vals):
            n+=1
            f=P(doc); p=next(iter(f))
            exp=model(vals,e)
            try:
                with p.as_interpreted_dict_view(interp)["F"] as lst:
                    apply(lst,e)
            except ValueError as ex_:
                k=("ValueError",sep,e[0], str(ex_)[:40]); 
                if not exp and "must have content" in str(ex_): continue
                kinds[k]+=1; ex.setdefault(k,(v,e)); continue
            except Exception as ex_:
                k=(type(ex_).__name__,sep,e[0]); kinds[k]+=1; ex.setdefault(k,(v,e)); continue
            out=f.dump()
            try:
                f2=P(out); 
                ok = f2.find_first_error_element() is None
                p2=next(iter(f2)); ok = ok and list(p2.keys())==["X","F","Y"] and len(list(f2))==1
            except Exception as ex_: ok=False
            if not ok:
                k=("invalid-doc",sep,e[0]); kinds[k]+=1; ex.setdefault(k,(v,e,out)); continue
            got=list(p2.as_interpreted_dict_view(interp)["F"])
            if got!=exp:
                k=("wrong-list",sep,e[0]); kinds[k]+=1; ex.setdefault(k,(v,e,out,got,exp)); continue
            if not out.startswith("X: 1\nF:") or not out.endswith("\nY: 2\n"):
                k=("nonlocal",sep,e[0]); kinds[k]+=1; ex.setdefault(k,(v,e,out)); continue
print(n)
for k,c in kinds.most_common(): print(c,k,ex[k])
