import io
from debian.arfile import ArFile
def mk(members):
    b = b"!<arch>\n"
    for name,data in members:
        b += (name.encode()+b"/").ljust(16) + b"0".ljust(12) + b"0".ljust(6)+b"0".ljust(6)+b"100644".ljust(8)+str(len(data)).encode().ljust(10)+b"`\n"+data
        if len(data)%2: b+=b"\n"
    return b
raw = mk([("a", b"x\ny"), ("b", b"hello\n")])
a = ArFile(fileobj=io.BytesIO(raw))
m = a.getmember("a"); ref = io.BytesIO(b"x\ny")
print(a.getnames(), [ (x.size,x.owner,x.group,x.mtime) for x in a.getmembers()])
for op in [("readline",),("readline",),("tell",),("readline",),("tell",),("seek",0),("read",),("tell",),("seek",5),("readline",),("tell",),("read",),("tell",), ("seek",1),("readline",10),("tell",), ("seek",0), ("readlines",), ("tell",)]:
    r1 = getattr(m, op[0])(*op[1:]); r2 = getattr(ref, op[0])(*op[1:])
    print(op, r1, r2, "" if (r1==r2 or op[0]=="seek") else "<<<<< DIFF")
