import re, sys
import debian._deb822_repro.tokens as T
T._RE_WHITESPACE_SEPARATED_WORD_LIST = re.compile(r'(?P<space_before>\s*)(?P<word>\S+)?(?P<trailing_whitespace>\s*)')
src = '''
@_value_line_tokenizer
def whitespace_split_tokenizer(v):
    assert "\\n" not in v
    for match in _RE_WHITESPACE_SEPARATED_WORD_LIST.finditer(v):
        space_before, word, space_after = match.groups()
        if space_before:
            yield Deb822SpaceSeparatorToken(sys.intern(space_before))
        if word:
            yield Deb822ValueToken(word)
        if space_after:
            yield Deb822SpaceSeparatorToken(sys.intern(space_after))
'''
exec(src, T.__dict__)
import debian._deb822_repro.parsing as Pm
Pm.whitespace_split_tokenizer = T.whitespace_split_tokenizer
Pm.LIST_SPACE_SEPARATED_INTERPRETATION._tokenizer = T.whitespace_split_tokenizer
exec(open("p8.py").read())
