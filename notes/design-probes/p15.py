import io, tarfile, gzip, bz2, lzma, itertools, time
from debian.debfile import DebFile, DebError
def ar(members):
    b=b"!<arch>\n"
    for name,data in members:
        b+=name.encode().ljust(16)+b"0".ljust(12)+b"0".ljust(6)+b"0".ljust(6)+b"100644".ljust(8)+str(len(data)).encode().ljust(10)+b"`\n"+data
        if len(data)%2: b+=b"\n"
    return b
def tar(files):
    bio=io.BytesIO()
    with tarfile.open(fileobj=bio,mode="w",format=tarfile.GNU_FORMAT) as t:
        ti=tarfile.TarInfo("./"); ti.type=tarfile.DIRTYPE; t.addfile(ti)
        for n,d in files:
            ti=tarfile.TarInfo("./"+n); ti.size=len(d); t.addfile(ti,io.BytesIO(d))
    return bio.getvalue()
comp={"":lambda b:b,".gz":gzip.compress,".bz2":bz2.compress,".xz":lambda b:lzma.compress(b,format=lzma.FORMAT_XZ),".lzma":lambda b:lzma.compress(b,format=lzma.FORMAT_ALONE)}
ctrl=[("control",b"Package: x\nVersion: 1\nDescription: d\n more\n"),("md5sums",b"abc  usr/bin/x\ndef  a b\n"),("postinst",b"#!/bin/sh\n")]
data=[("usr/bin/x",b"\x00\xff"),("a b",b"hi\n")]
t=time.time();n=0
for cc,dc in itertools.product(comp,comp):
    for perm in itertools.permutations([("debian-binary",b"2.0\n"),("control.tar"+cc,comp[cc](tar(ctrl))),("data.tar"+dc,comp[dc](tar(data)))]):
        d=DebFile(fileobj=io.BytesIO(ar(list(perm)))); n+=1
        assert dict(d.debcontrol())=={"Package":"x","Version":"1","Description":"d\n more"}, dict(d.debcontrol())
        assert d.scripts()=={"postinst":b"#!/bin/sh\n"}
        assert d.md5sums()=={b"usr/bin/x":"abc",b"a b":"def"}, d.md5sums()
        for nme,c in data:
            for sp in (nme,"./"+nme,"/"+nme):
                assert d.data.has_file(sp) and d.data.get_content(sp)==c
print(n,time.time()-t)
for bad in ([("control.tar.gz",b""),("data.tar.gz",b"")],[("debian-binary",b"2.0\n"),("data.tar.gz",b"")],[("debian-binary",b"2.0\n"),("control.tar.gz",b"")],[("debian-binary",b"2.0\n"),("control.tar.gz",b""),("control.tar.xz",b""),("data.tar",b"")],[("debian-binary",b"2.0\n"),("control.tar.zst",b""),("data.tar",b"")]):
    try: DebFile(fileobj=io.BytesIO(ar(bad))); print("ACCEPTED", [x[0] for x in bad])
    except DebError as e: print("DebError", [x[0] for x in bad])
