import os, gzip, hashlib, tempfile, shutil, difflib, builtins
import debian.debian_support as ds
def ed_script(old, new):
    sm = difflib.SequenceMatcher(a=old, b=new, autojunk=False)
    out=[]
    for tag,i1,i2,j1,j2 in reversed(sm.get_opcodes()):
        if tag=="equal": continue
        if tag=="delete": out.append("%d%sd\n" % (i1+1, "" if i2==i1+1 else ",%d"%i2))
        elif tag=="insert": out.append("%da\n"%i1); out+=new[j1:j2]; out.append(".\n")
        else: out.append("%d%sc\n" % (i1+1, "" if i2==i1+1 else ",%d"%i2)); out+=new[j1:j2]; out.append(".\n")
    return out
def sha(lines): return hashlib.sha1("".join(lines).encode()).hexdigest()
def mkrepo(d, versions, hashname="SHA1"):
    cur=versions[-1]
    with gzip.open(os.path.join(d,"Packages.gz"),"wt") as f: f.write("".join(cur))
    os.mkdir(os.path.join(d,"Packages.diff"))
    hist=[];pat=[]
    for i in range(len(versions)-1):
        s=ed_script(versions[i],versions[i+1]); name="p%d"%i
        with gzip.open(os.path.join(d,"Packages.diff",name+".gz"),"wt") as f: f.write("".join(s))
        hist.append(" %s %d %s\n"%(sha(versions[i]),len("".join(versions[i])),name))
        pat.append(" %s %d %s\n"%(sha(s),len("".join(s)),name))
    with open(os.path.join(d,"Packages.diff","Index"),"w") as f:
        f.write("%s-Current: %s %d\n"%(hashname,sha(cur),len("".join(cur))))
        f.write("%s-History:\n"%hashname+"".join(hist)); f.write("%s-Patches:\n"%hashname+"".join(pat))
versions=[["a\n","b\n"],["a\n","c\n","b\n"],["c\n","b\n","d\n"]]
for start in (0,1,2,"foreign","absent"):
    d=tempfile.mkdtemp(); mkrepo(d,versions); local=os.path.join(d,"local")
    if start!="absent":
        with open(local,"w") as f: f.write("".join(versions[start]) if start!="foreign" else "zzz\n")
    r=ds.update_file("file://"+os.path.join(d,"Packages"), local)
    print(start, r==versions[-1], open(local).read()=="".join(versions[-1]), os.path.exists(local+".new"))
    shutil.rmtree(d)
# fault: rename fails
d=tempfile.mkdtemp(); mkrepo(d,versions); local=os.path.join(d,"local"); open(local,"w").write("".join(versions[0]))
orig=os.rename
def bad(*a): raise OSError("boom")
ds.os.rename=bad
try: ds.update_file("file://"+os.path.join(d,"Packages"), local)
except Exception as e: print("rename fault:", repr(e), open(local).read()=="".join(versions[0]), os.path.exists(local+".new"))
ds.os.rename=orig
# fault: write fails
class FW:
    def __init__(self,f,n): self.f=f; self.n=n
    def write(self,s):
        if self.n==0: raise OSError("disk full")
        self.n-=1; return self.f.write(s)
    def __enter__(self): return self
    def __exit__(self,*a): return self.f.__exit__(*a)
def fopen(name,mode="r",*a,**k):
    f=builtins.open(name,mode,*a,**k)
    if name.endswith(".new"): return FW(f,1)
    return f
ds.open=fopen
try: ds.update_file("file://"+os.path.join(d,"Packages"), local)
except Exception as e: print("write fault:", repr(e), open(local).read()=="".join(versions[0]), os.path.exists(local+".new"))
del ds.open
shutil.rmtree(d)
