import itertools, subprocess, time
from debian.debian_support import Version, version_compare
def order(c):
    if c.isdigit(): return 0
    if c.isalpha(): return ord(c)
    if c=='~': return -1
    return ord(c)+256
def verrevcmp(a,b):
    i=j=0
    while i<len(a) or j<len(b):
        first_diff=0
        while (i<len(a) and not a[i].isdigit()) or (j<len(b) and not b[j].isdigit()):
            ac=order(a[i]) if i<len(a) else 0
            bc=order(b[j]) if j<len(b) else 0
            if ac!=bc: return -1 if ac<bc else 1
            i+=1;j+=1
        while i<len(a) and a[i]=='0': i+=1
        while j<len(b) and b[j]=='0': j+=1
        while i<len(a) and a[i].isdigit() and j<len(b) and b[j].isdigit():
            if not first_diff: first_diff=ord(a[i])-ord(b[j])
            i+=1;j+=1
        if i<len(a) and a[i].isdigit(): return 1
        if j<len(b) and b[j].isdigit(): return -1
        if first_diff: return -1 if first_diff<0 else 1
    return 0
def split(v):
    e="0"
    if ':' in v: e,v=v.split(':',1)
    r=""
    if '-' in v: v,r=v.rsplit('-',1)
    return int(e),v,r
def ref(a,b):
    ea,ua,ra=split(a); eb,ub,rb=split(b)
    if ea!=eb: return -1 if ea<eb else 1
    c=verrevcmp(ua,ub)
    return c if c else verrevcmp(ra,rb)
S="01aB.+~-:"
vs=[]
for L in (1,2,3):
    for t in itertools.product(S,repeat=L):
        s="".join(t)
        body=s.split(":",1)[1] if ":" in s else s
        if body.startswith("-") or body.endswith("-"): continue
        try: Version(s); vs.append(s)
        except ValueError: pass
print(len(vs))
t=time.time(); bad=0
for a in vs:
    for b in vs:
        if version_compare(a,b)!=ref(a,b):
            bad+=1
            if bad<10: print("DIFF",a,b,version_compare(a,b),ref(a,b))
print("pairs",len(vs)**2,"bad",bad,time.time()-t)
# dpkg cross-check on subset
import random
sub=[v for v in vs if len(v)<=2 and not v.startswith('-') and not v.endswith('-')]
print(len(sub))
t=time.time();n=0;dbad=0
for a in sub[:40]:
    for b in sub[:40]:
        r=ref(a,b); op={-1:"lt",0:"eq",1:"gt"}[r]
        rc=subprocess.run(["dpkg","--compare-versions",a,op,b],capture_output=True).returncode
        n+=1
        if rc!=0: dbad+=1; print("DPKG DISAGREE",a,b,r)
print(n,dbad,time.time()-t)
