import itertools, sys, collections, time
from debian import copyright as C, deb822
if "--fix" in sys.argv:
    def matches(self, filename):
        pat=self.files_pattern()
        if pat is None: return False
        return pat.fullmatch(filename) is not None
    C.FilesParagraph.matches=matches
def gmatch(p, s):
    # returns True/False or raises ValueError for bad escape
    toks=[]; i=0
    while i<len(p):
        c=p[i]; i+=1
        if c=="\\":
            if i>=len(p): raise ValueError
            c=p[i]; i+=1
            if c not in "\\?*": raise ValueError
            toks.append(("L",c))
        elif c=="*": toks.append(("S",))
        elif c=="?": toks.append(("Q",))
        else: toks.append(("L",c))
    def m(ti,si):
        if ti==len(toks): return si==len(s)
        t=toks[ti]
        if t[0]=="S": return any(m(ti+1,k) for k in range(si,len(s)+1))
        if si>=len(s): return False
        if t[0]=="Q" or t[1]==s[si]: return m(ti+1,si+1)
        return False
    return m(0,0)
PA="ab/*?\\"; NA="ab/*?\\\n"
pats=["".join(t) for L in range(1,4) for t in itertools.product(PA,repeat=L)]
names=["".join(t) for L in range(0,4) for t in itertools.product(NA,repeat=L)]
bad=collections.Counter(); ex={}; n=0; t0=time.time()
def mkp(lst):
    d=deb822.Deb822(); d["Files"]=" ".join(lst); d["Copyright"]="c"; d["License"]="l"
    return C.FilesParagraph(d)
def oracle(lst,name):
    err=False; res=False
    for p in lst:
        try:
            if gmatch(p,name): res=True
        except ValueError: err=True
    return "ERR" if err else res
for p in pats:
    fp=mkp([p])
    for nm in names:
        n+=1; exp=oracle([p],nm)
        try: got=fp.matches(nm)
        except ValueError: got="ERR"
        if got!=exp: k=("single",got,exp); bad[k]+=1; ex.setdefault(k,(p,nm))
short=[p for p in pats if len(p)<=2]
for a,b in itertools.product(short,repeat=2):
    fp=mkp([a,b])
    for nm in names[:400]:
        n+=1; exp=oracle([a,b],nm)
        try: got=fp.matches(nm)
        except ValueError: got="ERR"
        if got!=exp: k=("pair",got,exp); bad[k]+=1; ex.setdefault(k,((a,b),nm))
print(n,time.time()-t0)
for k,c in bad.most_common(): print(c,k,ex[k])
