import itertools, sys, re, collections
import debian.debian_support as ds
from debian.debian_support import Version, BaseVersion
if "--fix" in sys.argv:
    BaseVersion.re_valid_version = re.compile(r"^((?P<epoch>[0-9]+):)?(?P<upstream_version>[A-Za-z0-9.+:~-]+?)(-(?P<debian_revision>[A-Za-z0-9+.~]+))?\Z")
    def __setattr__(self, attr, value):
        if attr not in self.magic_attrs:
            object.__setattr__(self, attr, value); return
        if attr == "debian_version": attr = "debian_revision"
        if attr == "full_version":
            self._set_full_version(str(value))
        else:
            if value is not None: value = str(value)
            private = "_BaseVersion__%s" % attr
            old_value = getattr(self, private)
            object.__setattr__(self, private, value)
            try:
                self._update_full_version()
            except (ValueError, TypeError):
                object.__setattr__(self, private, old_value)
                self._update_full_version()
                raise ValueError("Setting %s to %r results in invalid version" % (attr, value))
    BaseVersion.__setattr__=__setattr__
UP=set("ABCDEFGHIJKLMNOPQRSTUVWXYZabcdefghijklmnopqrstuvwxyz0123456789.+~-")
REV=UP-{"-"}
def valid(s):
    """returns True/False/None(don't care)"""
    ep=None; body=s
    if ":" in s:
        e,rest=s.split(":",1)
        if e and all(c in "0123456789" for c in e): ep=e; body=rest
        else: return False
    if not body: return False
    allowed = UP|({":"} if ep is not None else set())
    if any(c not in allowed for c in body): return False
    if body.startswith("-") or body.endswith("-"): return None
    if "-" in body:
        up,rev=body.rsplit("-",1)
        if ":" in rev: return False
    return True
def parts(s):
    ep=None; body=s
    if ":" in s and valid(s) is not False:
        e,rest=s.split(":",1); ep=e; body=rest
    if "-" in body and not body.endswith("-"):
        up,rev=body.rsplit("-",1)
        if up: return ep,up,rev
    return ep,body,None
S=["0","1","a",".","+","~","-",":"," ","\n","_","é","٣"]
bad=collections.Counter(); ex={}; n=0; dc=0
for L in range(0,5):
    for t in itertools.product(S,repeat=L):
        s="".join(t); n+=1; v=valid(s)
        try: o=Version(s); acc=True
        except ValueError: acc=False
        except Exception as e: bad[("ctor-exc",type(e).__name__)]+=1; ex.setdefault(("ctor-exc",type(e).__name__),s); continue
        if v is None: dc+=1
        elif acc!=v:
            k=("accept" if acc else "reject",); bad[k]+=1; ex.setdefault(k,s)
        if acc:
            e,u,r=o.epoch,o.upstream_version,o.debian_revision
            rec=(e+":" if e is not None else "")+u+("-"+r if r is not None else "")
            if str(o)!=s or rec!=s: bad[("lossy",)]+=1; ex.setdefault(("lossy",),s)
            if v and (e,u,r)!=parts(s): bad[("parts",)]+=1; ex.setdefault(("parts",),(s,(e,u,r),parts(s)))
print("accept-set",n,"dontcare",dc,dict(bad),ex)
# assignments
starts=["1.0","1:2.0-3","0:a-b-c","1.0-0"]
vals=[None,"","1","2.0","a-b","x:y"," ","é","1\n"]
attrs=["epoch","upstream_version","debian_revision","debian_version","full_version"]
ops=[(a,x) for a in attrs for x in vals]
def recompose(e,u,r): return (e+":" if e is not None else "")+u+("-"+r if r else "")
bad=collections.Counter(); ex={}; n=0
for s0 in starts:
  for L in (1,2):
    for h in itertools.product(ops,repeat=L):
        v=Version(s0); m=parts(s0); ms=s0; skip=False
        for (a,x) in h:
            n+=1
            before=(str(v),v.epoch,v.upstream_version,v.debian_revision)
            # model
            if a=="full_version": new=str(x)
            else:
                e,u,r=m; xs=None if x is None else str(x)
                if a=="epoch": e=xs
                elif a=="upstream_version": u=xs
                else: r=xs
                new=None if u is None else recompose(e,u,r)
            ok = None if new is None else valid(new)
            try: setattr(v,a,x); res="ok"
            except ValueError: res="ValueError"
            except Exception as ee: res=type(ee).__name__
            after=(str(v),v.epoch,v.upstream_version,v.debian_revision)
            if new is not None and ok is None: skip=True; break   # don't care zone
            exp_ok = (new is not None and ok)
            if exp_ok:
                if res!="ok" or after!=(new,)+parts(new):
                    k=("should-accept",a,repr(x),res); bad[k]+=1; ex.setdefault(k,(s0,h,before,after,new)); break
                m=parts(new); ms=new
            else:
                if res!="ValueError" or after!=before:
                    k=("should-reject",a,repr(x),res,"changed" if after!=before else "same"); bad[k]+=1; ex.setdefault(k,(s0,h,before,after,new)); break
print("assign",n)
for k,c in bad.most_common(): print(c,k,ex[k])
