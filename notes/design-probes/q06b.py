import io, itertools, collections, os, tempfile, sys, time
from debian.arfile import ArFile, ArMember
exec(open("q06.py").read().split("import sys")[0].split("# candidate fix")[1])
if "--fix" in sys.argv: ArMember.readline = readline
def mk(members, gnu=True):
    b = b"!<arch>\n"
    for name,data in members:
        nm = (name.encode()+(b"/" if gnu else b"")).ljust(16)
        b += nm + b"0".ljust(12) + b"0".ljust(6)+b"0".ljust(6)+b"100644".ljust(8)+str(len(data)).encode().ljust(10)+b"`\n"+data
        if len(data)%2: b+=b"\n"
    return b
contents=[b"", b"a", b"\n", b"ab", b"a\n", b"\na", b"a\nb", b"a\nb\n", b"\n\n"]
def ops_for(size):
    o=[("read",),("read",1),("read",2),("read",size+1),("read",-1),("readline",),("readline",1),("readline",2),("readline",-1),("readlines",),("tell",)]
    for p in sorted({0,1,size,size+1}): o.append(("seek",p))
    o += [("seek",1,1),("seek",-1,1),("seek",0,2),("seek",-1,2),("seek",1,2)]
    return o
tot_states=tot_trans=0; viol=collections.Counter(); ex={}
t0=time.time()
for ca,cb in itertools.product(contents,repeat=2):
  for mode in ("shared","fname"):
    raw=mk([("a",ca),("b",cb)]); data=[ca,cb]
    if mode=="fname":
        fd,path=tempfile.mkstemp(); os.write(fd,raw); os.close(fd)
    init=(0,0); seen={init}; frontier=collections.deque([init])
    while frontier:
        st=frontier.popleft()
        for mi in (0,1):
            for op in ops_for(len(data[mi])):
              for upos in ((0,len(raw)) if mode=="shared" else (None,)):
                if mode=="shared": under=io.BytesIO(raw); ar=ArFile(fileobj=under)
                else: ar=ArFile(filename=path)
                ms=ar.getmembers(); refs=[io.BytesIO(d) for d in data]
                for i in (0,1): ms[i].seek(st[i]); refs[i].seek(st[i])
                if upos is not None: under.seek(upos)
                m=ms[mi]; r=refs[mi]
                if op[0]=="seek":
                    whence=op[2] if len(op)>2 else 0
                    base={0:0,1:r.tell(),2:len(data[mi])}[whence]
                    if base+op[1]<0 or base+op[1]>len(data[mi])+1: continue
                    m.seek(*op[1:]); r.seek(*op[1:]); res=(None,None)
                else:
                    res=(getattr(m,op[0])(*op[1:]), getattr(r,op[0])(*op[1:]))
                tot_trans+=1
                key=tuple(x.tell() for x in ms); rkey=tuple(x.tell() for x in refs)
                for x in ms: x.close()
                if res[0]!=res[1] or key!=rkey:
                    sig=(op[0],)+tuple(op[1:2]); viol[sig]+=1; ex.setdefault(sig,(ca,cb,mode,st,mi,op,res,key,rkey)); continue
                if key not in seen: seen.add(key); frontier.append(key)
    tot_states+=len(seen)
    if mode=="fname": os.unlink(path)
print("states",tot_states,"transitions",tot_trans,time.time()-t0)
for k,c in viol.most_common(): print(c,k,ex[k])
