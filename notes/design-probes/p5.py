from debian import deb822
t = "SHA1-Current: abc 123\nSHA1-History:\n aaa 1 2020\n bbb 22 2021\nSHA1-Patches:\n ccc 3 2020\n"
p = deb822.PdiffIndex(t)
print(p['SHA1-History'])
try: print(repr(p.dump()))
except Exception as e: print("PdiffIndex dump EXC", repr(e))
r = deb822.Release("Origin: x\nMD5Sum:\n aaa 12 main/x\n bbb 3 main/y\n")
print(repr(r.dump()))
r.size_field_behavior="dak"
try: print(repr(r.dump()))
except Exception as e: print("Release dak dump EXC", repr(e))
d = deb822.Dsc("Source: x\nFiles:\n aaa 12 x.dsc\n")
print(repr(d.dump()))
d = deb822.Dsc({"Source":"x"}); d["Files"]=[{"md5sum":"a","size":"1","name":"n"}]; print(repr(d.dump()))
d = deb822.Dsc({"Source":"x"}); d["Files"]=[]; print(repr(d.dump()))
b = deb822.BuildInfo("Source: x\nChecksums-Sha1:\n aaa 12 x.dsc\n"); print(repr(b.dump()))
c = deb822.Changes("Source: x\nFiles:\n aaa 12 sec prio x.dsc\n"); print(repr(c.dump()), c['Files'])
