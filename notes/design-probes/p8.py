import itertools, sys, re
from debian._deb822_repro import parse_deb822_file, LIST_SPACE_SEPARATED_INTERPRETATION as WS, LIST_COMMA_SEPARATED_INTERPRETATION as CS
def P(text):
    return parse_deb822_file(text.splitlines(keepends=True), accept_files_with_error_tokens=True)
def oracle(value_text, sep):
    # value_text: text after "F:" ; drop comment lines
    lines=[l for l in value_text.split("\n") if not l.startswith("#")]
    t="\n".join(lines)
    if sep==",":
        return [x.strip() for x in t.split(",") if x.strip()]
    return t.split()
pieces_ws=["a","bb"," ","  ","\t","\n ","\n\t","\n#c\n "]
pieces_cs=["a","b c",","," ","\n ","\n#c\n ",", "]
bad=0;n=0
for interp,sep,pieces in ((WS," ",pieces_ws),(CS,",",pieces_cs)):
  for L in range(1,6):
    for seq in itertools.product(pieces, repeat=L):
        v="".join(seq)
        if v.endswith("\n ") or v.endswith("\n\t") or v.endswith("#c\n "): continue
        doc="X: 1\nF:"+v+"\nY: 2\n"
        # validity: must parse without errors & have same fields
        try:
            f=P(doc)
        except Exception as e:
            continue
        if f.find_first_error_element() is not None: continue
        p=next(iter(f))
        if list(p.keys())!=["X","F","Y"]: continue
        if len(list(f))!=1: continue
        n+=1
        exp=oracle(v,sep)
        try:
            view=p.as_interpreted_dict_view(interp)
            with view["F"] as lst:
                got=list(lst)
        except Exception as e:
            if exp: 
                bad+=1; print("EXC", repr(v), repr(e))
            continue
        if got!=exp:
            bad+=1
            if bad<30: print("READ", sep, repr(v), got, exp)
        if f.dump()!=doc:
            bad+=1; print("NOOP CHANGED", repr(v), repr(f.dump()))
print(n,bad)
