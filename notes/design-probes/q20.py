import itertools, sys, collections, re, time
from debian.debtags import DB
import debian.debtags as dt
if "--fix" in sys.argv:
    def copy(self):
        res=DB(); res.db={k:v.copy() for k,v in self.db.items()}; res.rdb={k:v.copy() for k,v in self.rdb.items()}; return res
    def reverse_copy(self):
        res=DB(); res.db={k:v.copy() for k,v in self.rdb.items()}; res.rdb={k:v.copy() for k,v in self.db.items()}; return res
    DB.copy=copy; DB.reverse_copy=reverse_copy
# model: (pkgs:set, tags_with_entries? , pairs:set) -- db keys = pkgs; rdb keys = tags having >=1 pkg ... but reverse() swaps so "rdb keys" may include empties
class M:
    def __init__(s,db=None,rdb=None): s.db={} if db is None else db; s.rdb={} if rdb is None else rdb
    def clone(s): return M({k:set(v) for k,v in s.db.items()},{k:set(v) for k,v in s.rdb.items()})
def m_rev(db):
    r={}
    for p,ts in db.items():
        for t in ts: r.setdefault(t,set()).add(p)
    return r
FILES=[["a: t, u::x\n","b: t\n","pp\n"],["pp, qr: u::x, u::y\n","a: v\n"],[]]
PK=["a","b","pp","qr"]; TG=["t","u::x","u::y","v"]
tagsets=[set(),{"t"},{"t","u::x"},{"u::y","v"}]
preds={"p_a": lambda p: p in("a","pp"), "t_u": lambda t: t.startswith("u::"), "pt": lambda pt: "t" in pt[1]}
def ops(nobj):
    out=[]
    for o in range(nobj):
        for p in PK:
            for ts in range(len(tagsets)): out.append(("insert",o,p,ts))
        for d in ("copy","reverse","reverse_copy","facet"): out.append((d,o))
        for sub in (("a",),("a","pp","zz"),()): out.append(("choose",o,sub)); out.append(("choose_copy",o,tuple(x for x in sub if x!="zz")))
        out += [("fp",o),("fpc",o),("fpt",o),("fptc",o),("ft",o),("ftc",o)]
    return out
def facet(t): return re.sub(r"^([^:]+).+", r"\1", t)
def step(objs, models, op, kf):
    t=op[0]; o=objs[op[1]]; m=models[op[1]]
    if t=="insert":
        p=op[2]; ts=tagsets[op[3]]
        if p in m.db: return None   # distinct names only
        o.insert(p,set(ts))
        m.db[p]=set(ts)
        for tg in ts:
            if tg in m.rdb: m.rdb[tg].add(p)
            else: m.rdb[tg]= set(p) if kf else {p}
        return objs,models
    def add(no,nm): return objs+[no], models+[nm]
    if t=="copy": return add(o.copy(), m.clone())
    if t=="reverse": 
        nm=M(m.rdb,m.db)  # shares
        return add(o.reverse(), nm)
    if t=="reverse_copy": c=m.clone(); return add(o.reverse_copy(), M(c.rdb,c.db))
    if t=="facet":
        nm=M()
        for p,ts in m.db.items():
            fts={facet(x) for x in ts}; nm.db[p]=set(fts)
            for tg in fts:
                if tg in nm.rdb: nm.rdb[tg].add(p)
                else: nm.rdb[tg]= set(p) if kf else {p}
        return add(o.facet_collection(), nm)
    if t in("choose","choose_copy"):
        sub=op[2]
        if t=="choose_copy" and any(p not in m.db for p in sub): return None
        db={p:m.db[p] for p in sub if p in m.db}
        no=o.choose_packages(sub) if t=="choose" else o.choose_packages_copy(sub)
        return add(no, M(db,m_rev(db)))
    if t in("fp","fpc"):
        db={p:(m.db[p] if t=="fp" else set(m.db[p])) for p in m.db if preds["p_a"](p)}
        no=o.filter_packages(preds["p_a"]) if t=="fp" else o.filter_packages_copy(preds["p_a"])
        return add(no,M(db,m_rev(db)))
    if t in("fpt","fptc"):
        db={p:(m.db[p] if t=="fpt" else set(m.db[p])) for p in m.db if "t" in m.db[p]}
        no=o.filter_packages_tags(preds["pt"]) if t=="fpt" else o.filter_packages_tags_copy(preds["pt"])
        return add(no,M(db,m_rev(db)))
    if t in("ft","ftc"):
        rdb={tg:(m.rdb[tg] if t=="ft" else set(m.rdb[tg])) for tg in m.rdb if preds["t_u"](tg)}
        no=o.filter_tags(preds["t_u"]) if t=="ft" else o.filter_tags_copy(preds["t_u"])
        return add(no,M(m_rev(rdb),rdb))
def agree(o,m): return o.db==m.db and o.rdb==m.rdb
def inverse(o):
    for p,ts in o.db.items():
        for t in ts:
            if p not in o.rdb.get(t,()): return False
    for t,ps in o.rdb.items():
        for p in ps:
            if t not in o.db.get(p,()): return False
    return True
res=collections.Counter(); ex={}; n=0; t0=time.time()
DEPTH=int(sys.argv[1]) if len(sys.argv)>1 and sys.argv[1].isdigit() else 2
def explore(fi, h):
    pass
for fi,lines in enumerate(FILES):
    def build(h, kf):
        d=DB(); d.read(iter(lines)); objs=[d]
        md={}
        for l in lines:
            l=l.rstrip("\n")
            if ":" in l: ps,ts=l.split(": ",1); ts=set(ts.split(", "))
            else: ps,ts=l,set()
            for p in ps.split(", "): md[p]=set(ts)
        models=[M(md,m_rev(md))]
        for op in h:
            if op[1]>=len(objs): return "skip"
            r=step(objs,models,op,kf)
            if r is None: return "skip"
            objs,models=r
            if not all(agree(o,m) for o,m in zip(objs,models)): return ("diverge",op)
        return ("ok",objs)
    allops=ops(3)
    for L in range(1,DEPTH+1):
        for h in itertools.product(allops,repeat=L):
            r=build(h,False)
            if r=="skip": continue
            n+=1
            if r[0]=="ok":
                if not all(inverse(o) for o in r[1]): res[("ok-but-not-inverse",)]+=1; ex.setdefault(("ok-but-not-inverse",),(fi,h,[(o.db,o.rdb) for o in r[1]]))
                continue
            r2=build(h,True)
            if r2=="skip" or r2[0]=="ok": res[("known-finding",)]+=1; ex.setdefault(("known-finding",),h)
            else:
                k=("FRESH",r2[1][0]); res[k]+=1; ex.setdefault(k,(fi,h))
print(n,time.time()-t0)
for k,c in res.most_common(): print(c,k,ex.get(k))
print("---- debug")
d=DB(); d.read(iter([])); r=d.reverse(); d.insert("a", set()); print(d.db,d.rdb,r.db,r.rdb)
d=DB(); d.read(iter([])); r=d.reverse(); d.insert("a", {"t"}); print(d.db,d.rdb,r.db,r.rdb)
