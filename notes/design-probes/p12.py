import io, itertools, warnings
from debian.deb822 import Deb822, Dsc
def forms(text):
    b=text.encode()
    yield "str", lambda: text
    yield "bytes", lambda: b
    yield "lines_nl", lambda: text.splitlines(True)
    yield "lines_nonl", lambda: text.splitlines()
    yield "textio", lambda: io.StringIO(text)
    yield "bytesio", lambda: io.BytesIO(b)
def armor(text):
    return "-----BEGIN PGP SIGNED MESSAGE-----\nHash: SHA512\n\n"+text+"\n-----BEGIN PGP SIGNATURE-----\n\niQabc\n=xyz\n-----END PGP SIGNATURE-----\n"
docs=["A: b\n", "A: b\nC:\n d\n  e: f\n\t#g\n", "A:  :x \nB: #y\nC: a\n .\n b\t\n", "#c0\nA: b\n#c1\nC: d\n#c2\n e\n", "A: b\n\nC: d\n", "\n\nA: b\n \n\nC: d\n\n\n"]
for doc in docs:
    res={}
    for name,mk in forms(doc):
        try:
            ps=[list(p.items()) for p in Deb822.iter_paragraphs(mk())]
            one=list(Deb822(mk()).items())
        except Exception as e: ps=repr(e); one=None
        res[name]=(ps,one)
    ref=res["str"]
    print(repr(doc), ref)
    for k,v in res.items():
        if v!=ref: print("   DIFF", k, v)
    if "\n\n" not in doc.strip("\n"):
        a=armor(doc)
        for name,mk in forms(a):
            one=list(Deb822(mk()).items()); ps=[list(p.items()) for p in Deb822.iter_paragraphs(mk())]
            if one!=ref[1] or ps!=ref[0]: print("   ARMOR DIFF", name, one, ps)
