import itertools, sys, collections
from debian import deb822
if "--fix" in sys.argv:
    def pd(self):
        out={}
        for key in self._multivalued_fields:
            if key not in self: continue
            if hasattr(self[key],'keys'): continue
            out[key]={"size": self._get_size_field_length(key)}
        return out
    deb822.PdiffIndex._fixed_field_lengths=property(pd)
    def rl(self):
        out={}
        for key in self._multivalued_fields:
            if key not in self: continue
            out[key]={"size": self._get_size_field_length(key)}
        return out
    deb822.Release._fixed_field_lengths=property(rl)
classes=[("Dsc",deb822.Dsc,None),("Changes",deb822.Changes,None),("BuildInfo",deb822.BuildInfo,None),("PdiffIndex",deb822.PdiffIndex,None),("Release",deb822.Release,"apt-ftparchive"),("Release",deb822.Release,"dak")]
toks=["a","bb","x/y.z","é"]; sizes=["1","22","12345678901234567"]
res=collections.Counter(); ex={}; n=0
for cname,cls,beh in classes:
    fields=list(cls._multivalued_fields)
    canon={f.lower():f for f in fields}
    subsets=list(itertools.chain.from_iterable(itertools.combinations(fields,k) for k in range(0,len(fields)+1)))
    if len(subsets)>300: subsets=[s for s in subsets if len(s)<=2 or len(s)>=len(fields)-1]
    for sub in subsets:
      for nrec in (1,2,3):
        d=cls({"Origin":"x"})
        if beh: d.size_field_behavior=beh
        want={}
        for fi,f in enumerate(sub):
            sf=cls._multivalued_fields[f]
            recs=[]
            for r in range(nrec):
                rec={}
                for j,s in enumerate(sf):
                    rec[s]= sizes[(r+fi)%3] if s=="size" else toks[(r+j+fi)%4]
                recs.append(rec)
            d[f]=recs; want[f]=recs
        n+=1
        try: text=d.dump()
        except Exception as e:
            k=(cname,beh,"dump-exc",type(e).__name__); res[k]+=1; ex.setdefault(k,(sub,str(e))); continue
        d2=cls(text)
        for f in sub:
            got=[dict(x) for x in d2[f]] if not hasattr(d2[f],'keys') else [dict(d2[f])]
            if got!=want[f]: k=(cname,beh,"records"); res[k]+=1; ex.setdefault(k,(f,got,want[f],text))
            if cname in("Release","PdiffIndex"):
                W=16 if beh=="apt-ftparchive" else max(len(r["size"]) for r in want[f])
                lines=[l for l in text.split("\n")]
                # find field block
                i=[j for j,l in enumerate(lines) if l.lower()==f+":"][0]
                for r,l in zip(want[f],lines[i+1:]):
                    sf=cls._multivalued_fields[f]
                    exp=" "+" ".join(r[s].rjust(W) if s=="size" else r[s] for s in sf)
                    if l!=exp: k=(cname,beh,"align"); res[k]+=1; ex.setdefault(k,(l,exp))
        try:
            if d2.dump()!=text and beh!="dak": k=(cname,beh,"redump"); res[k]+=1; ex.setdefault(k,(text,d2.dump()))
        except Exception as e:
            k=(cname,beh,"redump-exc",type(e).__name__); res[k]+=1; ex.setdefault(k,(sub,str(e)))
print(n)
for k,c in res.most_common(): print(c,k,str(ex[k])[:300])
