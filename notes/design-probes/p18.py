import itertools, time
from debian.deb822 import Deb822
K=["A","a","B","b","C"]
ops=[("set",k,v) for k in K for v in "12"]+[("del",k) for k in K]+[("first",k) for k in K]+[("last",k) for k in K]+[("before",k,r) for k in K for r in K]+[("after",k,r) for k in K for r in K]+[("sort",),("copy",),("reparse",)]
def mfind(m,k):
    for i,(s,v) in enumerate(m):
        if s.lower()==k.lower(): return i
    return None
def mapply(m,op):
    m=[list(x) for x in m]; t=op[0]
    if t=="set":
        i=mfind(m,op[1])
        if i is None: m.append([op[1],op[2]])
        else: m[i][1]=op[2]
        return m,None
    if t in("sort",): return sorted(m,key=lambda x:x[0].lower()),None
    if t in("copy","reparse"): return m,None
    i=mfind(m,op[1])
    if t=="del":
        if i is None: return m,KeyError
        del m[i]; return m,None
    if t in("first","last"):
        if i is None: return m,KeyError
        x=m.pop(i); m.insert(0,x) if t=="first" else m.append(x); return m,None
    j=mfind(m,op[2])
    if op[1].lower()==op[2].lower():
        return m,(ValueError if i is not None else (ValueError,KeyError))
    if i is None or j is None: return m,KeyError
    x=m.pop(i); j=mfind(m,op[2]); m.insert(j if t=="before" else j+1,x); return m,None
def iapply(d,op):
    t=op[0]
    try:
        if t=="set": d[op[1]]=op[2]
        elif t=="del": del d[op[1]]
        elif t=="first": d.order_first(op[1])
        elif t=="last": d.order_last(op[1])
        elif t=="before": d.order_before(op[1],op[2])
        elif t=="after": d.order_after(op[1],op[2])
        elif t=="sort": d.sort_fields()
        elif t=="copy": d=d.copy()
        elif t=="reparse": d=Deb822(d.dump())
    except Exception as e: return d,type(e)
    return d,None
def obs(d): return [ [k,d[k]] for k in d ], len(d), [k in d for k in K]
inits=[lambda: Deb822(), lambda: Deb822({"A":"1","b":"2"}), lambda: Deb822("A: 1\nb: 2\nC: 3\n")]
bad=0;n=0;t0=time.time()
for init in inits:
    m0=[[k,d] for k,d in init().items()]
    for L in (1,2,3):
        for h in itertools.product(ops,repeat=L):
            d=init(); m=m0; ok=True
            for op in h:
                m,me=mapply(m,op); d,ie=iapply(d,op); n+=1
                exp=[list(x) for x in m]
                if (ie!=me and not (isinstance(me,tuple) and ie in me)) or obs(d)!=(exp,len(exp),[mfind(exp,k) is not None for k in K]):
                    bad+=1
                    if bad<10: print("DIFF",h,op,ie,me,obs(d),exp)
                    break
    print(n,bad,time.time()-t0)
