import warnings, itertools, sys
from debian.changelog import Changelog, ChangelogParseError, ChangelogCreateError
H="pkg (1.0-1) unstable; urgency=low"
H2="pkg (1.0-2) unstable frozen; urgency=low (HIGH for x), binary-only=yes"
HBAD="pkg (1.0-3) unstable; bad"
T=" -- A B <a@b.c>  Mon, 01 Jan 2024 00:00:00 +0000"
T1=" -- A B <a@b.c> Mon, 01 Jan 2024 00:00:00 +0000"
TN=" --"
TBAD=" -- A B <a@b.c>  garbage"
lines=[H,H2,HBAD,T,T1,TN,TBAD,"","  * change"," one-space","junk","# comment","vim: ts=2","Local variables:","pkg (0.1)","$Id: x $", "/* c */", "Old Changelog:", "   "]
def run(text, **kw):
    with warnings.catch_warnings(record=True) as w:
        warnings.simplefilter("always")
        try:
            c=Changelog(text, **kw); return c, len(w), None
        except Exception as e:
            return None, len(w), e
def blocks(c):
    return [(b.package,b._raw_version,b.distributions,b.urgency,b.urgency_comment,tuple(sorted(b.other_pairs.items())),tuple(b.changes()),b.author,b.date) for b in c]
bad=0; n=0
for L in range(1,5):
    for seq in itertools.product(lines, repeat=L):
        for aea in (False,True):
            n+=1
            text="\n".join(seq)+"\n"
            c,nw,e=run(text, allow_empty_author=aea)
            if e is not None:
                print("LENIENT RAISED", seq, aea, repr(e)); bad+=1; continue
            c2,nw2,e2=run(text, allow_empty_author=aea, strict=True)
            if (e2 is not None) != (nw>0):
                print("STRICT/LENIENT", seq, aea, nw, repr(e2)); bad+=1
            if e2 is not None and not isinstance(e2, ChangelogParseError):
                print("STRICT other exc", seq, repr(e2)); bad+=1
            try: s=str(c)
            except ChangelogCreateError: continue
            except Exception as e3: print("STR EXC", seq, repr(e3)); bad+=1; continue
            c3,nw3,e3=run(s, allow_empty_author=aea)
            if e3 is not None: print("REPARSE RAISED", seq); bad+=1; continue
            try: s3=str(c3)
            except Exception as e4: print("RESTR EXC", seq, aea, repr(e4)); bad+=1; continue
            if s3!=s or blocks(c3)!=blocks(c):
                bad+=1
                if bad<40: print("NOT NORMAL FORM", seq, aea, repr(s), repr(s3))
            if bad>60: sys.exit()
print(n,bad)
