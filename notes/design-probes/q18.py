import itertools, subprocess, tempfile, os, collections, time
from debian.debian_support import patches_from_ed_script, patch_lines
def lcs_ops(a,b):
    n,m=len(a),len(b); T=[[0]*(m+1) for _ in range(n+1)]
    for i in range(n-1,-1,-1):
        for j in range(m-1,-1,-1):
            T[i][j]=T[i+1][j+1]+1 if a[i]==b[j] else max(T[i+1][j],T[i][j+1])
    i=j=0; hunks=[]; cur=None
    while i<n or j<m:
        if i<n and j<m and a[i]==b[j]:
            if cur: hunks.append(cur); cur=None
            i+=1;j+=1
        else:
            if cur is None: cur=[i,i,j,j]
            if j<m and (i>=n or T[i][j+1]>=T[i+1][j]): j+=1; cur[3]=j
            else: i+=1; cur[1]=i
    if cur: hunks.append(cur)
    return hunks
def ed(a,b):
    out=[]
    for i1,i2,j1,j2 in reversed(lcs_ops(a,b)):
        if i2>i1 and j2==j1: out.append("%d%sd\n"%(i1+1,"" if i2==i1+1 else ",%d"%i2))
        elif i2==i1: out.append("%da\n"%i1); out+=b[j1:j2]; out.append(".\n")
        else: out.append("%d%sc\n"%(i1+1,"" if i2==i1+1 else ",%d"%i2)); out+=b[j1:j2]; out.append(".\n")
    return out
L=["a\n","b\n","c\n"]
lists=[list(t) for n in range(0,5) for t in itertools.product(L,repeat=n)]
res=collections.Counter(); ex={}; n=0; t0=time.time()
for a in lists:
    for b in lists:
        s=ed(a,b); n+=1
        for conv in (lambda x:x, lambda x:[y.encode() for y in x]):
            aa=conv(list(a)); 
            try: patch_lines(aa, patches_from_ed_script(conv(s)))
            except Exception as e: res[("apply-exc",type(e).__name__)]+=1; ex.setdefault(("apply-exc",),(a,b,s)); continue
            if aa!=conv(b): res[("wrong",)]+=1; ex.setdefault(("wrong",),(a,b,s,aa))
print("pairs",n,time.time()-t0, dict(res), ex)
# diff -e cross-check on <=3
small=[l for l in lists if len(l)<=3]
d=tempfile.mkdtemp(); res=collections.Counter(); n=0
for a in small:
    for b in small:
        open(d+"/a","w").write("".join(a)); open(d+"/b","w").write("".join(b))
        s=subprocess.run(["diff","-e",d+"/a",d+"/b"],capture_output=True,text=True).stdout.splitlines(True); n+=1
        aa=list(a); patch_lines(aa, patches_from_ed_script(s))
        if aa!=b: res["diff-e wrong"]+=1; ex.setdefault("diff-e",(a,b,s,aa))
        if s!=ed(a,b): res["script differs from own"]+=1
print("diff -e pairs",n,dict(res), ex.get("diff-e"))
# corruptions
res=collections.Counter(); n=0
bads=["x\n","1z\n","1,a\n","a\n","-1d\n","1 d\n","1,2a\n"]
for a in small:
    for b in small:
        s=ed(a,b)
        cmdpos=[]; i=0
        while i<len(s):
            cmdpos.append(i)
            if s[i].rstrip("\n")[-1] in "ac":
                i+=1
                while s[i]!=".\n": i+=1
            i+=1
        for pos in cmdpos:
            for bad in bads:
                t=list(s); t[pos]=bad; n+=1
                try: patch_lines(list(a), patches_from_ed_script(t)); res[("corrupt-accepted",bad)]+=1; ex.setdefault(("corrupt",bad),(a,b,t))
                except ValueError: pass
                except Exception as e: res[("corrupt-otherexc",type(e).__name__)]+=1
            if s[pos].rstrip("\n")[-1] in "ac":
                end=pos+1
                while s[end]!=".\n": end+=1
                for cut in range(pos+1,end+1):
                    t=s[:cut]; n+=1
                    try: patch_lines(list(a), patches_from_ed_script(t)); res[("truncated-accepted",)]+=1; ex.setdefault(("trunc",),(a,b,t))
                    except ValueError: pass
print("corruptions",n,dict(res)); print({k:v for k,v in ex.items() if k not in("diff-e",)})
