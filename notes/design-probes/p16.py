import itertools, warnings
from debian.changelog import Changelog
pk=["pkg","lib-x.y+z","a0"]; ver=["1.0-1","1:2.0~rc1-0ubuntu1","0"]; dist=["unstable","unstable frozen","bookworm-security","a.b"]
urg=["low","HIGH","medium (see NEWS)"]; kv=["",", binary-only=yes",", x-a=b, y=c d"]
chg=["  * x","  * é #1: y","    cont","","   ","  [ Name ]"]
auth=["A B <a@b.c>","É <>","x y z <q@r>"]; date=["Mon, 01 Jan 2024 00:00:00 +0000","Thu,  5 Feb 2009 11:22:33 -1200","1 Jan 2024 0:00:00 +0100"]
bad=0;n=0
def blocktext(p,v,d,u,k,cs,a,dt): return "%s (%s) %s; urgency=%s%s\n"%(p,v,d,u,k)+"".join(c+"\n" for c in cs)+" -- %s  %s\n"%(a,dt)
for p,v,d,u,k in itertools.product(pk,ver,dist,urg,kv):
  for L in range(0,3):
    for cs in itertools.product(chg,repeat=L):
      for a,dt in ((auth[0],date[0]),(auth[1],date[1]),(auth[2],date[2])):
        t=blocktext(p,v,d,u,k,cs,a,dt); n+=1
        with warnings.catch_warnings(record=True) as w:
            warnings.simplefilter("always")
            try: c=Changelog(t,strict=True); s=str(c)
            except Exception as e: s=repr(e)
        b=c[0] if not isinstance(s,str) or len(c) else None
        ok = s==t and not w and b.package==p and str(b.version)==v and b.distributions==d and b.author==a and b.date==dt and b.changes()==list(cs)
        if not ok:
            bad+=1
            if bad<10: print("FAIL",repr(t),repr(s),[str(x.message) for x in w])
print(n,bad)
