from debian._deb822_repro import parse_deb822_file
def P(text):
    return parse_deb822_file(text.splitlines(keepends=True), accept_files_with_error_tokens=True, accept_files_with_duplicated_fields=True)
def show(label, f):
    print(label, repr(f.dump()))
doc="A: 1\nB: 2\nA: 3\nC: 4\nA: 5\n"
def go(label, fn):
    f=P(doc); p=next(iter(f)); 
    try:
        fn(p)
    except Exception as e:
        print(label, "EXC", repr(e)); return
    g=lambda k: (p[k] if k in p else None)
    print(label, repr(f.dump()), "|", g(("A",0)), g(("A",1)), g(("A",2)), list(p.keys()))
go("order_first A", lambda p: p.order_first("A"))
go("order_last A", lambda p: p.order_last("A"))
go("order_before A C", lambda p: p.order_before("A","C"))
go("order_after A B", lambda p: p.order_after("A","B"))
go("order_first (A,1)", lambda p: p.order_first(("A",1)))
go("order_last (A,0)", lambda p: p.order_last(("A",0)))
go("order_before (A,2) B", lambda p: p.order_before(("A",2),"B"))
go("order_after (A,0) C", lambda p: p.order_after(("A",0),"C"))
go("order_before B A", lambda p: p.order_before("B","A"))
go("order_after B A", lambda p: p.order_after("B","A"))
go("order_before A A", lambda p: p.order_before("A","A"))
go("order_before (A,1) (A,0)", lambda p: p.order_before(("A",1),("A",0)))
go("order_before (A,0) (A,1)", lambda p: p.order_before(("A",0),("A",1)))
go("set A", lambda p: p.__setitem__("A","x"))
go("set (A,1)", lambda p: p.__setitem__(("A",1),"x"))
go("del A", lambda p: p.__delitem__("A"))
go("del (A,1)", lambda p: p.__delitem__(("A",1)))
go("del (A,5)", lambda p: p.__delitem__(("A",5)))
go("sort", lambda p: p.sort_fields())
go("set (A,3)", lambda p: p.__setitem__(("A",3),"x"))
go("set new D", lambda p: p.__setitem__("D","x"))
go("set (D,0)", lambda p: p.__setitem__(("D",0),"x"))
go("set (D,1)", lambda p: p.__setitem__(("D",1),"x"))
