import os, gzip, hashlib, tempfile, shutil, difflib, builtins, itertools, collections, sys, types
import debian.debian_support as ds
def ed_script(old, new):
    sm = difflib.SequenceMatcher(a=old, b=new, autojunk=False); out=[]
    for tag,i1,i2,j1,j2 in reversed(sm.get_opcodes()):
        if tag=="equal": continue
        if tag=="delete": out.append("%d%sd\n" % (i1+1, "" if i2==i1+1 else ",%d"%i2))
        elif tag=="insert": out.append("%da\n"%i1); out+=new[j1:j2]; out.append(".\n")
        else: out.append("%d%sc\n" % (i1+1, "" if i2==i1+1 else ",%d"%i2)); out+=new[j1:j2]; out.append(".\n")
    return out
def sha(lines): return hashlib.sha1("".join(lines).encode()).hexdigest()
def gz(path, text):
    with gzip.open(path,"wt") as f: f.write(text)
def mkrepo(d, versions, fault):
    cur=versions[-1]
    if fault!=("nofull",): gz(os.path.join(d,"Packages.gz"),"".join(cur))
    os.mkdir(os.path.join(d,"Packages.diff"))
    hist=[];pat=[]
    for i in range(len(versions)-1):
        s=ed_script(versions[i],versions[i+1]); name="p%d"%i
        body="".join(s)
        if fault==("garble",i): body=body.replace("\n","X\n",1) if body else "1d\n"
        if fault==("truncate",i): body=body[:max(0,len(body)//2)]
        if fault!=("nopatch",i): gz(os.path.join(d,"Packages.diff",name+".gz"),body)
        hist.append(" %s %d %s\n"%(sha(versions[i]),len("".join(versions[i])),name))
        pat.append(" %s %d %s\n"%(sha(s),len("".join(s)),name))
    curhash=sha(cur) if fault!=("wrongcurrent",) else sha(cur+["zz\n"])
    idx="SHA1-Current: %s %d\n"%(curhash,len("".join(cur)))+"SHA1-History:\n"+"".join(hist)+"SHA1-Patches:\n"+"".join(pat)
    if fault==("idx-unparsable",): idx="!!! not a field\n"+idx
    if fault==("idx-nocurrent",): idx="SHA1-History:\n"+"".join(hist)+"SHA1-Patches:\n"+"".join(pat)
    if fault==("idx-nopatches",): idx="SHA1-Current: %s %d\n"%(curhash,len("".join(cur)))+"SHA1-History:\n"+"".join(hist)
    if fault!=("noidx",):
        with open(os.path.join(d,"Packages.diff","Index"),"w") as f: f.write(idx)
L=["a\n","b\n","c\n"]
lists=[list(t) for n in range(0,3) for t in itertools.product(L,repeat=n)]
histories=[[a,b] for a in lists for b in lists if a!=b]+[[a,b,c] for a in lists[:7] for b in lists[:7] for c in lists[:7] if a!=b and b!=c]
print(len(histories),"histories")
res=collections.Counter(); ex={}; n=0
class FW:
    def __init__(self,f,n): self.f=f; self.n=n
    def write(self,s):
        if self.n==0: raise OSError("disk full")
        self.n-=1; return self.f.write(s)
    def __enter__(self): return self
    def __exit__(self,*a): return self.f.__exit__(*a)
realos=os
def run(versions, start, fault):
    d=tempfile.mkdtemp(prefix="q19"); 
    try:
        repo=os.path.join(d,"repo"); os.mkdir(repo); mkrepo(repo,versions,fault if fault[0] not in("write","rename","opennew") else ("none",))
        work=os.path.join(d,"work"); os.mkdir(work); local=os.path.join(work,"local")
        if start!="absent":
            with open(local,"w") as f: f.write("".join(versions[start]) if start!="foreign" else "zzz\n")
        before=open(local).read() if start!="absent" else None
        # faults in fs
        if fault[0]=="write":
            def fopen(name,mode="r",*a,**k):
                f=builtins.open(name,mode,*a,**k)
                return FW(f,fault[1]) if str(name).endswith(".new") else f
            ds.open=fopen
        if fault[0]=="opennew":
            def fopen(name,mode="r",*a,**k):
                if str(name).endswith(".new"): raise OSError("EACCES")
                return builtins.open(name,mode,*a,**k)
            ds.open=fopen
        if fault[0]=="rename":
            proxy=types.SimpleNamespace(**{k:getattr(realos,k) for k in ("path","unlink","close")}); 
            def bad(*a): raise OSError("boom")
            proxy.rename=bad; ds.os=proxy
        try:
            try: r=ds.update_file("file://"+os.path.join(repo,"Packages"), local); exc=None
            except BaseException as e: r=None; exc=e
        finally:
            if "open" in ds.__dict__: del ds.open
            ds.os=realos
        after=open(local).read() if os.path.exists(local) else None
        leftovers=sorted(os.listdir(work))
        cur="".join(versions[-1])
        if exc is None: safe = (r==versions[-1] and after==cur)
        else: safe = (after==before)
        clean = leftovers in (["local"],[]) and (leftovers==["local"] or after is None)
        return exc, safe, clean, leftovers
    finally:
        shutil.rmtree(d)
must_converge={("none",),("noidx",),("idx-unparsable",)}
for versions in histories:
    starts=list(range(len(versions)))+["foreign","absent"]
    faults=[("none",),("noidx",),("idx-unparsable",),("idx-nocurrent",),("idx-nopatches",),("wrongcurrent",),("nofull",),("rename",),("opennew",)]+[("write",i) for i in range(0,3)]
    for i in range(len(versions)-1): faults+=[("garble",i),("truncate",i),("nopatch",i)]
    for start in starts:
        for fault in faults:
            n+=1
            exc,safe,clean,left=run(versions,start,fault)
            kind=type(exc).__name__ if exc else "ok"
            res[(fault[0],kind,"safe" if safe else "UNSAFE","clean" if clean else "DIRTY")]+=1
            if not safe or not clean: ex.setdefault((fault[0],kind),(versions,start,fault,left,str(exc)))
            if fault in must_converge and exc is not None: res[("MUSTCONVERGE",fault[0],kind)]+=1; ex.setdefault(("MUSTCONVERGE",fault[0],kind),(versions,start,fault,str(exc)))
print(n)
for k,c in sorted(res.items(),key=str): print(c,k)
for k,v in ex.items(): print("EX",k,v)
