import itertools, warnings
from debian.changelog import Changelog, ChangelogCreateError
T=" -- A B <a@b.c>  Mon, 01 Jan 2024 00:00:00 +0000"
base=["", "pkg (1.0-1) unstable; urgency=low\n\n  * c1\n\n"+T+"\n", "pkg (1.0-1) unstable; urgency=low\n  * c1\n"+T+"\n\nold (0.1) stable; urgency=high, k=v\n\n  * c0\n\n -- X <x@y>  Tue, 02 Jan 2024 00:00:00 +0000\n", "pkg (1.0-1) unstable; urgency=low\n  * no trailer\n"]
ops=[("new_block",dict(package="np",version="2.0",distributions="experimental",urgency="medium",author="N <n@n>",date="Wed, 03 Jan 2024 00:00:00 +0000")),
     ("new_block",dict(package="np",version="2.0",distributions="experimental",urgency="medium",changes=["","  * nc",""],author="N <n@n>",date="Wed, 03 Jan 2024 00:00:00 +0000")),
     ("new_block",dict()),
     ("add_change","  * added"),("add_change",""),("add_change","    cont"),
     ("set","version","3:4-5"),("set","package","zz"),("set","distributions","a b"),("set","urgency","critical"),("set","author","Q <q@q>"),("set","date","Thu, 04 Jan 2024 01:02:03 -0500")]
def lenient(t):
    with warnings.catch_warnings(record=True) as w:
        warnings.simplefilter("always"); return Changelog(t) if t else Changelog()
def blocks(c): return [(b.package,b._raw_version,b.distributions,b.urgency,b.urgency_comment,tuple(sorted(b.other_pairs.items())),tuple(b.changes()),b.author,b.date) for b in c]
bad=0;n=0;fmt=0
for t in base:
  for L in (1,2,3):
    for h in itertools.product(ops,repeat=L):
        c=lenient(t); ok=True
        for op in h:
            try:
                if op[0]=="new_block": c.new_block(**op[1])
                elif op[0]=="add_change": c.add_change(op[1])
                else: setattr(c,op[1],op[2])
            except IndexError: ok=False;break   # no blocks
        if not ok: continue
        n+=1
        try: s=str(c)
        except ChangelogCreateError: continue
        fmt+=1
        c2=lenient(s); s2=str(c2)
        if s2!=s or blocks(c2)!=blocks(c):
            bad+=1
            if "no trailer" not in t: print("NF",t[:20],h,repr(s),repr(s2))
print(n,fmt,bad)
